"""C02: only table collections meeting the data-model requirements become tree sequences."""

H = 'c02_integrity.c'


def jobs(tier):
    q = [
        dict(name='edges-free', harness=H, entry='main_c02',
             defines=dict(NN=3, NE=2, FREE_EDGES=1, FREE_L=1, NSPECIAL=8), timeout=600,
             require_tags={'end': 1, 'accept': 1, 'reject': 1}),
        dict(name='sites-mutations-free', harness=H, entry='main_c02',
             defines=dict(NN=3, NE=2, NS=2, NM=2, NSPECIAL=4), timeout=600,
             require_tags={'end': 1, 'accept': 1, 'reject': 1}),
        dict(name='refs-migrations-free', harness=H, entry='main_c02',
             defines=dict(NN=3, NE=2, NPOP=1, NIND=1, NMIG=1, FREE_REFS=1, NSPECIAL=3),
             timeout=600, require_tags={'end': 1, 'accept': 1, 'reject': 1}),
    ]
    if tier == 'quick':
        return q
    t = [
        dict(name='edges3-free', harness=H, entry='main_c02',
             defines=dict(NN=3, NE=3, FREE_EDGES=1, FREE_L=1, NSPECIAL=10), timeout=1500,
             require_tags={'end': 1, 'accept': 1, 'reject': 1}),
        dict(name='sites-mutations3-free', harness=H, entry='main_c02',
             defines=dict(NN=3, NE=2, NS=2, NM=3, NSPECIAL=5), timeout=1500,
             require_tags={'end': 1, 'accept': 1, 'reject': 1}),
        dict(name='all-free-small', harness=H, entry='main_c02',
             defines=dict(NN=2, NE=1, NS=1, NM=1, NPOP=1, NIND=1, NMIG=1, FREE_EDGES=1, FREE_REFS=1, FREE_L=1),
             timeout=1500, require_tags={'end': 1, 'accept': 1, 'reject': 1}),
    ]
    return q + t


BOUNDS = {
    'quick': 'nodes<=3, edges<=2, sites<=2, mutations<=2, migrations<=2, individuals<=2 (2 parents each), '
             'populations<=1; ids free int32; coordinates/times integer-valued doubles in [-128,127] plus one '
             'slot at a time NaN/+inf/-inf; mutation times also UNKNOWN; sequence_length free (incl. <=0) in '
             'the edge variant; index built by the real build_index',
    'thorough': 'as quick plus edges<=3, mutations<=3 and an all-tables-free variant at size 1-2',
}
OUTSIDE = [
    'user-supplied (stale) index arrays: covered by the C01/C06 harnesses only for real build_index output',
    'non-integer finite coordinates (the checked code only compares coordinates)',
    'the Python wrappers TableCollection.tree_sequence / tskit.load (CPython API)',
    'the mutation-parent-is-nearest-mutation requirement (documented as not detected at load time)',
]
ASSUMPTIONS = [
    'oracle = transcription of docs/data-model.md "Valid tree sequence requirements" in harness/c02_integrity.c',
    'z3 decides each path; integer-valued doubles are encoded exactly as integers (IntD)',
]

MANIFEST = {'text': 'Bounded exhaustive symbolic execution of the real tsk_table_collection_build_index + tsk_treeseq_init on table collections whose every checked field is a solver variable, against an independent transcription of docs/data-model.md: accept iff requirements, for all values within the size bounds.', 'note': "Trusts clang's IR, the engine's IR semantics (cross-validated by native replay of sampled paths each run), z3, and the oracle transcription in harness/c02_integrity.c. Bounded table sizes; integer-valued coordinates plus NaN/inf.", 'technique': 'symbolic execution of LLVM IR + SMT (z3), bounded'}
