"""C02: only table collections meeting the data-model requirements become tree sequences (C gate by llsym; the Python
gate TableCollection.tree_sequence by CrossHair)."""
import os
import sys

HERE = os.path.dirname(os.path.dirname(os.path.abspath(__file__)))
sys.path.insert(0, os.path.join(HERE, 'engine'))

H = 'c02_integrity.c'


def conds(tier):
    return [dict(module='c02_props', function='tree_sequence_builds_an_index_only_when_absent', timeout=60,
                 encodes=['tskit.tables.TableCollection.tree_sequence'],
                 what='tree_sequence() builds an index only when none is present; an existing (stale / user-supplied) index reaches the C check untouched')]


def jobs(tier):
    q = [
        dict(name='edges-free', harness=H, entry='main_c02',
             defines=dict(NN=3, NE=2, FREE_EDGES=1, FREE_L=1, NSPECIAL=8), timeout=600,
             require_tags={'end': 1, 'accept': 1, 'reject': 1}),
        dict(name='sites-mutations-free', harness=H, entry='main_c02',
             defines=dict(NN=3, NE=2, NS=2, NM=2, NSPECIAL=4), timeout=600,
             require_tags={'end': 1, 'accept': 1, 'reject': 1}),
        dict(name='refs-migrations-free', harness=H, entry='main_c02',
             defines=dict(NN=3, NE=2, NPOP=1, NIND=1, NMIG=1, FREE_REFS=1, NSPECIAL=3),
             timeout=600, require_tags={'end': 1, 'accept': 1, 'reject': 1}),
        dict(name='index-free', harness=H, entry='main_c02',
             defines=dict(NN=3, NE=2, FREE_EDGES=1, FREE_INDEX=1, NSPECIAL=0), timeout=600,
             require_tags={'end': 1, 'accept': 1, 'reject': 1, 'bad-index': 1}),
    ]
    if tier == 'quick':
        return q
    t = [
        dict(name='index3-free', harness=H, entry='main_c02',
             defines=dict(NN=3, NE=3, FREE_INDEX=1, NSPECIAL=0), timeout=1500,
             require_tags={'end': 1, 'accept': 1, 'reject': 1, 'bad-index': 1}),
        dict(name='edges3-free', harness=H, entry='main_c02',
             defines=dict(NN=3, NE=3, FREE_EDGES=1, FREE_L=1, NSPECIAL=10), timeout=1500,
             require_tags={'end': 1, 'accept': 1, 'reject': 1}),
        dict(name='sites-mutations3-free', harness=H, entry='main_c02',
             defines=dict(NN=3, NE=2, NS=2, NM=3, NSPECIAL=5), timeout=1500,
             require_tags={'end': 1, 'accept': 1, 'reject': 1}),
        dict(name='all-free-small', harness=H, entry='main_c02',
             defines=dict(NN=2, NE=1, NS=1, NM=1, NPOP=1, NIND=1, NMIG=1, FREE_EDGES=1, FREE_REFS=1, FREE_L=1),
             timeout=1500, require_tags={'end': 1, 'accept': 1, 'reject': 1}),
    ]
    return q + t


BOUNDS = {
    'quick': 'nodes<=3, edges<=2, sites<=2, mutations<=2, migrations<=2, individuals<=2 (2 parents each), '
             'populations<=1; ids free int32; coordinates/times integer-valued doubles in [-128,127] plus one '
             'slot at a time NaN/+inf/-inf; mutation times also UNKNOWN; sequence_length free (incl. <=0) in '
             'the edge variant; index built by the real build_index, or (index variant) both index orders free 32-bit values on 2 free edges: accepted iff permutations ordered by left / right',
    'thorough': 'as quick plus edges<=3, mutations<=3 and an all-tables-free variant at size 1-2',
}
OUTSIDE = [
    'user-supplied index arrays on more than 2 free edges (3 fixed full-length edges in the thorough tier)',
    'non-integer finite coordinates (the checked code only compares coordinates)',
    'tskit.load and TreeSequence.load_tables (CPython API); of TableCollection.tree_sequence only the index decision is covered',
    'the mutation-parent-is-nearest-mutation requirement (documented as not detected at load time)',
]
ASSUMPTIONS = [
    'oracle = transcription of docs/data-model.md "Valid tree sequence requirements" in harness/c02_integrity.c',
    'z3 decides each path; integer-valued doubles are encoded exactly as integers (IntD)',
]

MANIFEST = {'text': 'Bounded exhaustive symbolic execution of the real tsk_table_collection_build_index + tsk_treeseq_init on table collections whose every checked field is a solver variable, against an independent transcription of docs/data-model.md: accept iff requirements, for all values within the size bounds.', 'note': "Trusts clang's IR, the engine's IR semantics (cross-validated by native replay of sampled paths each run), z3, and the oracle transcription in harness/c02_integrity.c. Bounded table sizes; integer-valued coordinates plus NaN/inf.", 'technique': 'symbolic execution of LLVM IR + SMT (z3), bounded; CrossHair on the Python gate'}


def run(pid, tier, seed, only=None):
    import mixed
    return mixed.run_mixed(pid, tier, seed, only, jobs(tier), conds(tier), BOUNDS[tier], OUTSIDE, ASSUMPTIONS,
                           ['fake table collection (has_index / build_index), TreeSequence.load_tables replaced by a recorder'])
