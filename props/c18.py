"""C18: Newick export encodes the trees faithfully (C writer by llsym; buffer sizing and text wrapping by CrossHair)."""
import json
import os
import sys
import time

HERE = os.path.dirname(os.path.dirname(os.path.abspath(__file__)))
sys.path.insert(0, os.path.join(HERE, 'engine'))

H = 'c18_newick.c'
M = 'c18_props'


def jobs(tier):
    q = [
        dict(name='newick-one-tree-n4e3', harness=H, entry='main_c18', defines=dict(NN=4, NE=3, NE_MIN=1, ONE_TREE=1, TP_HI=3, SP_HI=2),
             timeout=900, require_tags={'end': 1, 'accept': 1, 'internal-root': 1}),
        dict(name='newick-multi-tree-n3e2', harness=H, entry='main_c18', defines=dict(NN=3, NE=2, TP_HI=0, SP_HI=1),
             timeout=900, require_tags={'end': 1, 'accept': 1, 'internal-root': 1}),
    ]
    q.append(dict(name='newick-fractional-times', harness=H, entry='main_c18',
                  defines=dict(NN=4, NE=3, NE_MIN=2, ONE_TREE=1, TP_LO=5, TP_HI=5, SP_HI=0), timeout=900,
                  require_tags={'end': 1, 'accept': 1, 'internal-root': 1}))
    if tier == 'quick':
        return q
    return q + [
        dict(name='newick-one-tree-n5e4', harness=H, entry='main_c18', defines=dict(NN=5, NE=4, ONE_TREE=1, TP_HI=1, SP_HI=1),
             timeout=3000, allow_incomplete=True, require_tags={'end': 1, 'accept': 1, 'internal-root': 1}),
    ]


def conds(tier):
    f = 5 if tier == 'thorough' else 1
    return [
        dict(module=M, function='newick_buffer_cherry', timeout=170 * f,
             encodes=['tskit.trees.Tree._as_newick_fast', 'tskit.text_formats.wrap_text'],
             what='buffer passed to the C writer >= text length + 1: cherry, times in [-1e5,1e5] symbolic, precision 0-3, 1- or 3-digit ids'),
        dict(module=M, function='newick_buffer_caterpillar', timeout=170 * f,
             what='same for a 3-leaf caterpillar, times in [-99,99] symbolic, precision 0-2'),
        dict(module=M, function='wrap_text_lines', timeout=120 * f, what='wrap_text: exact width lines, last shorter, 0 = no wrap'),
        dict(module=M, function='fasta_records_are_named_after_their_nodes', timeout=120 * f,
             encodes=['tskit.text_formats.write_fasta'],
             what='write_fasta: whole text = ">n<id>" + wrapped alignment per sample; 3 samples with free ids in [7,11], widths {0,4,6,7}'),
        dict(module=M, function='fasta_rejects_bad_widths', timeout=60 * f, what='write_fasta: negative widths raise ValueError'),
        dict(module=M, function='nexus_blocks', timeout=170 * f, encodes=['tskit.text_formats.write_nexus'],
             what='write_nexus: whole text (TAXA, optional DATA rows n<id> alignment, optional TREES lines) for 3 samples with free ids in [8,11], '
                  '1-2 trees, include_trees / include_alignments None/True/False, discrete genome on/off'),
    ]


BOUNDS = {
    'quick': 'C writer: every one-tree sequence with 4 nodes / 1-3 edges (4 integer time profiles incl. negative times x 3 sample '
             'profiles, plus one profile of fractional dyadic times) and every 3-node 2-edge multi-tree class (first and last tree), every node as root, precision 0-2, both '
             'label styles, buffer size one solver variable in [0,160]; Python: buffer-size estimate on two tree shapes with '
             'symbolic integer node times; wrap_text for lengths 1-12 and widths 0-6; write_fasta / write_nexus record assembly on a fake tree sequence (3 samples with free small ids)',
    'thorough': 'plus 5-node 4-edge one-tree sequences (time-boxed) and 5x CrossHair budgets',
}
OUTSIDE = ['digits of branch lengths that are not exactly representable (printf rounding is delegated to the snprintf stub)', 'the general Python path build_newick with custom node_labels',
           'the alignments themselves (TreeSequence.alignments, numpy) that write_nexus / write_fasta print', 'third-party parsers']
ASSUMPTIONS = ['interface contract between the halves: the C writer succeeds iff buffer_size >= len(text)+1 (asserted in the C '
               'harness, assumed by the Python contracts)', 'snprintf stub formats concrete numbers with Python % formatting',
               'math.log10/ceil replaced by an exact integer stand-in in the Python contracts']
MANIFEST = dict(
    engine='llsym',
    text='Symbolic execution of the real tsk_convert_newick against an independent recursive writer (exact text), with the '
         'buffer size symbolic: success iff it fits, never a write past the buffer; CrossHair on Tree._as_newick_fast shows the '
         'buffer it passes always suffices for symbolic (also negative) node times; wrap_text line structure.',
    note='Compositional: C half and Python half meet at the stated buffer contract. Integer node times only.',
    technique='symbolic execution of LLVM IR + SMT (z3) and of Python (CrossHair), bounded, compositional')


def run(pid, tier, seed, only=None):
    """C jobs through the llsym driver, Python contracts through CrossHair; one merged evidence file."""
    from engine import driver
    import chdriver
    out = os.environ.get('VERIF_OUT', HERE)
    chk = driver.Check(pid, tier)
    try:
        js = jobs(tier)
        if only:
            js = [j for j in js if only in j['name']]
        if js:
            chk.run_c_jobs(js)
        cov = chk.c_coverage(BOUNDS[tier], OUTSIDE)
        rc_c = chk.finish('model_checking', cov, ASSUMPTIONS, seed)
    finally:
        chk.cleanup()
    ev_c = json.load(open(os.path.join(out, 'evidence', pid + '.json')))
    cs = conds(tier)
    if only:
        cs = [c for c in cs if only in c['function']]
    rc_p = chdriver.run(pid, tier, seed, cs, BOUNDS[tier], OUTSIDE, ASSUMPTIONS, ['mathlite (math.log10/ceil on ints)', 'fake tree + fake _ll_tree.get_newick', 'fake tree sequence for write_fasta / write_nexus (samples, alignments, trees)', 'pure-Python print']) if cs else 0
    ev_p = json.load(open(os.path.join(out, 'evidence', pid + '.json')))
    # merge: C-engine evidence is the base, CrossHair results are attached
    ev = ev_c
    ev['coverage']['crosshair'] = ev_p['coverage']
    ev['coverage']['states'] += ev_p['coverage']['states']
    ev['coverage']['traces_validated_against_impl'] += ev_p['coverage']['traces_validated_against_impl']
    ev['violations'] = ev_c.get('violations', 0) + ev_p.get('violations', 0)
    ev['harness_errors'] = ev_c.get('harness_errors', []) + ev_p.get('harness_errors', [])
    ev['known_findings'] = sorted(set(ev_c.get('known_findings', []) + ev_p.get('known_findings', [])))
    ev['wall_s'] = round(ev_c['wall_s'] + ev_p['wall_s'], 2)
    json.dump(ev, open(os.path.join(out, 'evidence', pid + '.json'), 'w'), indent=1)
    return 1 if 1 in (rc_c, rc_p) else 3 if 3 in (rc_c, rc_p) else 0
