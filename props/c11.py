"""C11: editing operations change only what they document (C mechanisms: delete_older, split_edges, decapitate, extend_haplotypes)."""

H = 'c11_edit.c'


def J(name, defines, **kw):
    d = dict(name=name, harness=H, entry='main_c11', defines=defines, timeout=900, require_tags={'end': 1})
    d.update(kw)
    return d


def jobs(tier):
    q = [
        J('delete-older', dict(MODE=1)),
        J('split-decapitate-n3e2', dict(MODE=2, NN=3, NE=2, NS=1, NM=1, TP_HI=0, SP_HI=0), require_tags={'end': 1, 'accept': 1, 'split': 1}),
        J('split-decapitate-fixed', dict(MODE=2, NN=4, NE=4, NS=1, NM=2, FIXED_TABLE=1), require_tags={'end': 1, 'accept': 1, 'split': 1}),
        J('extend-haplotypes-pinned', dict(MODE=3, NN=4, NE=3, NS=1, NM=1, TP_HI=0, SP_HI=0, PIN_P='{2,3,3}', PIN_C='{0,0,2}', PIN_RIGHT_MASK=5),
          require_tags={'end': 1, 'accept': 1, 'extended': 1}),
        J('extend-haplotypes-fixed', dict(MODE=3, NN=4, NE=4, NS=1, NM=1, FIXED_TABLE=1), require_tags={'end': 1, 'accept': 1}),
    ]
    if tier == 'quick':
        return q
    return q + [
        J('extend-haplotypes-pinned-free-ends', dict(MODE=3, NN=4, NE=3, NS=1, NM=1, TP_HI=0, SP_HI=0, PIN_P='{2,3,3}', PIN_C='{0,0,2}'), timeout=3000,
          allow_incomplete=True, require_tags={'end': 1, 'accept': 1, 'extended': 1}),
        J('extend-haplotypes-n4e3', dict(MODE=3, NN=4, NE=3, NS=0, NM=0, TP_HI=0, SP_HI=0), timeout=3000, allow_incomplete=True,
          require_tags={'end': 1, 'accept': 1, 'extended': 1}),
        J('extend-haplotypes-n4e3-sites', dict(MODE=3, NN=4, NE=3, NS=1, NM=1, TP_HI=0, SP_HI=0), timeout=3000, allow_incomplete=True,
          require_tags={'end': 1, 'accept': 1, 'extended': 1}),
        J('split-decapitate-n4e3', dict(MODE=2, NN=4, NE=3, NS=1, NM=1, TP_HI=0, SP_HI=0), timeout=3000, allow_incomplete=True,
          require_tags={'end': 1, 'accept': 1, 'split': 1}),
        J('extend-haplotypes-n5e4', dict(MODE=3, NN=5, NE=4, NS=1, NM=1, TP_HI=0, SP_HI=0), timeout=3000, allow_incomplete=True,
          require_tags={'end': 1, 'accept': 1}),
    ]


BOUNDS = {
    'quick': 'delete_older: 4 nodes with symbolic times, 2 edges, 3 mutations (known symbolic / unknown times, arbitrary parent '
             'links incl. forward ones), 2 migrations, cutoff symbolic, every row tagged by metadata; split_edges + delete_older '
             '(= decapitate): every 3-node 2-edge class and the fixed 5-tree table, cutoff in '
             '{-1,0,0.5,1,1.5,9}, mutations with unknown / node-time / node-time+0.5 times; extend_haplotypes: the 4-node 3-edge '
             'structure 0-2-3 / 0-3 with symbolic coordinates, one site and mutation (extension happens), and the fixed table',
    'thorough': 'plus all 4-node 3-edge classes for split/decapitate and extend_haplotypes, 5-node 4-edge for extend_haplotypes (time-boxed)',
}
OUTSIDE = ['keep_intervals, delete_intervals, ltrim/rtrim/trim, delete_sites, keep_with_offset: numpy array programs in tables.py',
           'util.intervals_to_np_array / negate_intervals', 'migrations in split_edges (refused)', 'simplify=True post-processing']
ASSUMPTIONS = ['oracles are the docstrings of TableCollection.delete_older, TreeSequence.split_edges/decapitate/extend_haplotypes']
MANIFEST = dict(
    text='Symbolic execution of the real tsk_table_collection_delete_older, tsk_treeseq_split_edges (and their composition) and '
         'tsk_treeseq_extend_haplotypes: exactly the documented rows are removed / split / moved, all other row data and '
         'metadata tags survive, mutation parents are maintained; extend_haplotypes keeps nodes, sites, sample genotypes and '
         'the simplified tables.',
    note='Only the C mechanisms; the numpy-level interval/trim/delete_sites operations are outside (stated).',
    technique='symbolic execution of LLVM IR + SMT (z3), bounded, differential against the documented rule')
