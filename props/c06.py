"""C06: a Tree's state depends only on where it is, not on how it got there."""

H = 'c06_navigation.c'


def jobs(tier):
    q = [
        dict(name='all-tables-k2', harness=H, entry='main_c06',
             defines=dict(NN=3, NE=2, NS=1, TP_HI=0, SP_LO=1, SP_HI=1, OPTS_LO=1, KOPS=2, FIRST_OP_MOVES=1),
             timeout=600, require_tags={'end': 1, 'null': 1, 'nonnull': 1}),
        dict(name='fixed-table-k3', harness=H, entry='main_c06',
             defines=dict(NN=4, NE=4, NS=1, FIXED_TABLE=1, OPTS_LO=1, KOPS=3),
             timeout=600, require_tags={'end': 1, 'null': 1, 'nonnull': 1}),
        dict(name='kernel-search-sorted', harness='k_kernels.c', entry='main_kernel', defines=dict(KERNEL=6, NA=5), timeout=600,
             require_tags={'end': 1, 'exact': 1, 'past-end': 1}),
    ]
    if tier == 'quick':
        return q
    for j in q:
        j['timeout'] = 3000  # the thorough tier shares the cores between more jobs
    return q + [
        dict(name='kernel-search-sorted-8', harness='k_kernels.c', entry='main_kernel', defines=dict(KERNEL=6, NA=8), timeout=1200,
             require_tags={'end': 1, 'exact': 1, 'past-end': 1}),
        dict(name='fixed-table-k4', harness=H, entry='main_c06',
             defines=dict(NN=4, NE=4, NS=1, FIXED_TABLE=1, OPTS_LO=1, KOPS=4),
             timeout=3000, allow_incomplete=True, require_tags={'end': 1, 'null': 1, 'nonnull': 1}),
        dict(name='all-tables-k3', harness=H, entry='main_c06',
             defines=dict(NN=3, NE=2, NS=1, TP_HI=0, SP_LO=1, SP_HI=1, OPTS_LO=1, KOPS=3), timeout=3000, allow_incomplete=True,
             require_tags={'end': 1, 'null': 1, 'nonnull': 1}),
        dict(name='n3e2-k4', harness=H, entry='main_c06', defines=dict(NN=3, NE=2, NS=1, TP_HI=0, SP_HI=0, KOPS=4),
             timeout=3000, allow_incomplete=True, require_tags={'end': 1, 'null': 1, 'nonnull': 1}),
        dict(name='n4e3-k3', harness=H, entry='main_c06', defines=dict(NN=4, NE=3, NS=1, TP_HI=0, SP_HI=0, KOPS=3),
             timeout=3000, allow_incomplete=True, require_tags={'end': 1, 'null': 1, 'nonnull': 1}),
    ]


BOUNDS = {
    'quick': 'search kernel: tsk_search_sorted (the position -> tree index step of seek from the null state) on strictly increasing arrays of 1-5 free binary64 values and a free probe; all 28 non-redundant sequences of 2 operations from {first,last,next,prev,seek(x),seek_index(i),clear} followed by copy, x '
             'a solver variable in [0,L), on every valid 3-node 2-edge tree sequence class with one site (edge '
             'coordinates symbolic), and all 343 sequences of 3 operations on one fixed 4-node 4-edge 5-tree sequence '
             '(internal sample, gap, empty last tree, site position and seek positions symbolic); sample lists on, all three nodes samples (so the oldest is an internal sample), one tracked sample; compared field by field with a fresh tree '
             'moved by seek_index and with one moved by first/next',
    'thorough': 'plus all 2401 sequences of 4 operations on the fixed table, sequences of 3 and 4 operations on all 3-node 2-edge classes and 3 operations on 4-node 3-edge tables (time-boxed)',
}
OUTSIDE = ['Python negative-index handling in Tree.seek_index', 'histories longer than the bound',
           'node-time profiles other than the first']
ASSUMPTIONS = ['the fresh reference tree is itself tied to the tables by the C01 check']
MANIFEST = dict(
    text='Bounded exhaustive symbolic execution of every operation sequence up to the bound on the real tree '
         'positioning code, differential against a freshly positioned tree; return codes of next/prev and the '
         'seek(x) containment are asserted at every step.',
    note='Histories bounded by K; tables bounded; trusts clang IR, engine (native replay of sampled paths), z3.',
    technique='symbolic execution of LLVM IR + SMT (z3), bounded histories, differential')
