"""C06: a Tree's state depends only on where it is, not on how it got there (C cursor by llsym; the Python wrappers
Tree.seek_index / seek / next / prev / TreeIterator by CrossHair)."""
import os
import sys

HERE = os.path.dirname(os.path.dirname(os.path.abspath(__file__)))
sys.path.insert(0, os.path.join(HERE, 'engine'))

H = 'c06_navigation.c'
M = 'c06_props'


def conds(tier):
    f = 4 if tier == 'thorough' else 1
    env = {'CH_PRECISE_FLOATS': '1'}
    enc = ['tskit.trees.Tree.seek_index', 'tskit.trees.Tree.seek', 'tskit.trees.Tree.next', 'tskit.trees.Tree.prev',
           'tskit.trees.TreeIterator']
    return [
        dict(module=M, function='seek_index_like_a_list', timeout=100 * f, env=env, encodes=enc,
             what='seek_index(i) = list indexing for 1-6 trees and i in [-20,20]; IndexError otherwise, tree untouched'),
        dict(module=M, function='seek_position_bounds', timeout=100 * f, env=env,
             what='seek(x) raises ValueError exactly outside [0,L) for every binary64 x (NaN, infinities)'),
        dict(module=M, function='iterators_visit_every_tree_once', timeout=100 * f, env=env,
             what='forward / reversed TreeIterator visit each of 1-5 trees once, len(), stay exhausted'),
        dict(module=M, function='next_prev_return_values', timeout=100 * f, env=env,
             what='next()/prev() return False exactly on entering the null state, up to 10 steps'),
    ]


def jobs(tier):
    q = [
        dict(name='all-tables-k2', harness=H, entry='main_c06',
             defines=dict(NN=3, NE=2, NS=1, TP_HI=0, SP_LO=1, SP_HI=1, OPTS_LO=1, KOPS=2, FIRST_OP_MOVES=1),
             timeout=600, require_tags={'end': 1, 'null': 1, 'nonnull': 1}),
        dict(name='fixed-table-k3', harness=H, entry='main_c06',
             defines=dict(NN=4, NE=4, NS=1, FIXED_TABLE=1, OPTS_LO=1, KOPS=3),
             timeout=600, require_tags={'end': 1, 'null': 1, 'nonnull': 1}),
        dict(name='nested-samples-k2', harness=H, entry='main_c06',
             defines=dict(NN=3, NE=2, NS=0, TP_LO=6, TP_HI=6, SP_LO=5, SP_HI=5, OPTS_LO=1, KOPS=2, FIRST_OP_MOVES=1),
             timeout=600, require_tags={'end': 1, 'null': 1, 'nonnull': 1}),
        dict(name='kernel-search-sorted', harness='k_kernels.c', entry='main_kernel', defines=dict(KERNEL=6, NA=5), timeout=600,
             require_tags={'end': 1, 'exact': 1, 'past-end': 1}),
    ]
    if tier == 'quick':
        return q
    for j in q:
        j['timeout'] = 3000  # the thorough tier shares the cores between more jobs
    return q + [
        dict(name='kernel-search-sorted-8', harness='k_kernels.c', entry='main_kernel', defines=dict(KERNEL=6, NA=8), timeout=1200,
             require_tags={'end': 1, 'exact': 1, 'past-end': 1}),
        dict(name='fixed-table-k4', harness=H, entry='main_c06',
             defines=dict(NN=4, NE=4, NS=1, FIXED_TABLE=1, OPTS_LO=1, KOPS=4),
             timeout=3000, allow_incomplete=True, require_tags={'end': 1, 'null': 1, 'nonnull': 1}),
        dict(name='all-tables-k3', harness=H, entry='main_c06',
             defines=dict(NN=3, NE=2, NS=1, TP_HI=0, SP_LO=1, SP_HI=1, OPTS_LO=1, KOPS=3), timeout=3000, allow_incomplete=True,
             require_tags={'end': 1, 'null': 1, 'nonnull': 1}),
        dict(name='n3e2-k4', harness=H, entry='main_c06', defines=dict(NN=3, NE=2, NS=1, TP_HI=0, SP_HI=0, KOPS=4),
             timeout=3000, allow_incomplete=True, require_tags={'end': 1, 'null': 1, 'nonnull': 1}),
        dict(name='n4e3-k3', harness=H, entry='main_c06', defines=dict(NN=4, NE=3, NS=1, TP_HI=0, SP_HI=0, KOPS=3),
             timeout=3000, allow_incomplete=True, require_tags={'end': 1, 'null': 1, 'nonnull': 1}),
    ]


BOUNDS = {
    'quick': 'the 2-operation histories also on 3-node classes in which every node is a sample at distinct times (nested internal samples, tracked sample below them); Python wrappers: 1-6 trees, index in [-20,20], any binary64 position; search kernel: tsk_search_sorted (the position -> tree index step of seek from the null state) on strictly increasing arrays of 1-5 free binary64 values and a free probe; all 28 non-redundant sequences of 2 operations from {first,last,next,prev,seek(x),seek_index(i),clear} followed by copy, x '
             'a solver variable in [0,L), on every valid 3-node 2-edge tree sequence class with one site (edge '
             'coordinates symbolic), and all 343 sequences of 3 operations on one fixed 4-node 4-edge 5-tree sequence '
             '(internal sample, gap, empty last tree, site position and seek positions symbolic); sample lists on, all three nodes samples (so the oldest is an internal sample), one tracked sample; compared field by field with a fresh tree '
             'moved by seek_index and with one moved by first/next',
    'thorough': 'plus all 2401 sequences of 4 operations on the fixed table, sequences of 3 and 4 operations on all 3-node 2-edge classes and 3 operations on 4-node 3-edge tables (time-boxed)',
}
OUTSIDE = ['TreeSequence.at / at_index / first / last (construct a Tree through the CPython wrapper)', 'histories longer than the bound',
           'node-time profiles other than the first']
ASSUMPTIONS = ['the fresh reference tree is itself tied to the tables by the C01 check',
               'Python contracts: the low-level tree is a stand-in with the cursor contract the C half establishes (null = -1, next/prev wrap through null, seek_index/seek only ever receive valid arguments - asserted by the stand-in)']
MANIFEST = dict(
    text='Bounded exhaustive symbolic execution of every operation sequence up to the bound on the real tree '
         'positioning code, differential against a freshly positioned tree; return codes of next/prev and the '
         'seek(x) containment are asserted at every step.  CrossHair on the real Python wrappers: seek_index has list-index semantics, '
         'seek rejects exactly the positions outside [0,L), iterators visit every tree once.',
    note='Histories bounded by K; tables bounded; trusts clang IR, engine (native replay of sampled paths), z3.',
    technique='symbolic execution of LLVM IR + SMT (z3) and of Python (CrossHair), bounded histories, differential')


def run(pid, tier, seed, only=None):
    import mixed
    return mixed.run_mixed(pid, tier, seed, only, jobs(tier), conds(tier), BOUNDS[tier], OUTSIDE, ASSUMPTIONS,
                           ['fake low-level tree cursor (index, next/prev/seek contract)'])
