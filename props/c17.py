"""C17 (parsers only): the text table parsers accept columns in any order, ignore unknown columns and default omitted ones."""
import os
import sys

sys.path.insert(0, os.path.join(os.path.dirname(os.path.dirname(os.path.abspath(__file__))), 'engine'))

M = 'c17_props'


def conds(tier):
    f = 4 if tier == 'thorough' else 1
    return [
        dict(module=M, function='nodes_column_orders', timeout=170 * f, encodes=['tskit.trees.parse_nodes', 'parse_edges', 'parse_individuals', 'parse_mutations'],
             what='parse_nodes with all five columns in 30 orders, integer cells symbolic'),
        dict(module=M, function='nodes_optional_columns', timeout=170 * f,
             what='parse_nodes with every subset of the optional columns and an unknown column at every index'),
        dict(module=M, function='edges_any_column_order', timeout=170 * f, what='parse_edges in 12 column orders with an unknown column'),
        dict(module=M, function='individuals_ragged_cells', timeout=170 * f,
             what='parse_individuals: empty location / parents cells in either row, optional columns omitted'),
        dict(module=M, function='mutations_times_and_parents', timeout=170 * f,
             what='parse_mutations: unknown / omitted time, omitted parent, multi-character and empty derived state'),
        dict(module=M, function='dump_load_nodes', timeout=300 * f, encodes=['tskit.text_formats.dump_text', 'tskit.trees.parse_nodes'],
             what='dump_text(nodes) -> parse_nodes on a fake tree sequence: sample flag, population in [-1,10], individual in {9,10}, two times, base64 metadata'),
        dict(module=M, function='dump_load_sites_mutations', timeout=400 * f, encodes=['tskit.text_formats.dump_text', 'tskit.trees.parse_sites', 'tskit.trees.parse_mutations'],
             what='dump_text(sites, mutations) -> parse_sites / parse_mutations: 2 sites, 3 mutations, node id in [0,11], each time known or unknown independently, parent -1/0, binary metadata'),
    ]


BOUNDS = {'quick': '2-row (edges: 1-row) tables in strict tab-separated mode; integer cells symbolic in [-1,11] (edges: parent <= 110), '
                   'rendered with str(); float cells and Base64 metadata cells concrete; column permutations, optional-column '
                   'subsets and the position of an unknown column symbolic', 'thorough': 'same conditions with 4x budgets'}
OUTSIDE = ['dump_text of edges, individuals, populations, migrations, provenances; precisions other than 6',
           'load_text: sort + tree_sequence() (C library)', 'symbolic floating-point and Base64 cells (float()/binascii realise)',
           'parse_populations, parse_migrations', 'non-strict whitespace mode', 'the round trip through real tables and load_text (sort, tree_sequence)']
ASSUMPTIONS = ['tables are replaced by a recorder of add_row keyword arguments']
MANIFEST = dict(engine='crosshair',
                text='PARTIAL claim (parsers, and the dump -> parse round trip of node, site and mutation rows on a stand-in tree sequence): CrossHair symbolic execution of the real '
                     'parse_nodes/edges/individuals/mutations on text assembled from symbolic integer cells in symbolic column '
                     'orders with symbolic optional-column subsets and an unknown extra column: the recorded rows equal the '
                     'source rows and omitted columns take the documented defaults; rows written by the real dump_text are read back unchanged by '
                     'the real parsers.  load_text (sort + tree_sequence on real tables) is NOT covered.',
                note='Recorder instead of real tables; floats and Base64 cells concrete; see outside_claim.',
                technique='symbolic execution of Python (CrossHair) + SMT (z3), bounded')


def run(pid, tier, seed, only=None):
    import chdriver
    cs = conds(tier)
    if only:
        cs = [c for c in cs if only in c['function']]
    return chdriver.run(pid, tier, seed, cs, BOUNDS[tier], OUTSIDE, ASSUMPTIONS, ['Recorder (table.add_row)', 'fake tree sequence rows for dump_text', 'pure-Python print'])
