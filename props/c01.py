"""C01: marginal trees are exactly what the node and edge tables say."""

H = 'c01_trees.c'


def jobs(tier):
    q = [
        dict(name='n3e2-all-profiles', harness=H, entry='main_c01',
             defines=dict(NN=3, NE=2, NE_MIN=0, NS=1, TP_HI=4, SP_HI=4), timeout=600,
             require_tags={'end': 1, 'accept': 1, 'multi-tree': 1}),
        dict(name='n4e3', harness=H, entry='main_c01',
             defines=dict(NN=4, NE=3, TP_HI=0, SP_HI=0, PASSES=1), timeout=900,
             require_tags={'end': 1, 'accept': 1, 'multi-tree': 1}),
    ]
    if tier == 'quick':
        return q
    return q + [
        dict(name='n4e3-all-passes', harness=H, entry='main_c01',
             defines=dict(NN=4, NE=3, TP_HI=1, SP_HI=0, PASSES=6), timeout=2400,
             require_tags={'end': 1, 'accept': 1, 'multi-tree': 1}),
        dict(name='n4e3-more-profiles', harness=H, entry='main_c01',
             defines=dict(NN=4, NE=3, NS=1, TP_LO=2, TP_HI=4, SP_LO=1, SP_HI=2), timeout=2400,
             require_tags={'end': 1, 'accept': 1, 'multi-tree': 1}),
        dict(name='n5e4', harness=H, entry='main_c01',
             defines=dict(NN=5, NE=4, TP_HI=0, SP_HI=0), timeout=3000, allow_incomplete=True,
             require_tags={'end': 1, 'accept': 1, 'multi-tree': 1}),
    ]


BOUNDS = {
    'quick': 'nodes<=4, edges<=3 (0..2 edges with 5 time profiles x 5 sample profiles and one site, all option passes; 3 edges with 1 '
             'time profile, default options only), parent/child ids enumerated, edge coordinates and site positions solver variables '
             '(integer-valued in [0,2E+1], which realises every order type of 2E end-points), three tree option '
             'passes per table class (default; sample lists + root_threshold 2 + tracked sample; no sample counts), '
             'forward and backward iteration',
    'thorough': 'as quick plus 4 nodes/3 edges under the remaining time/sample profiles and 5 nodes/4 edges '
                '(time-boxed; incomplete exploration is reported as such)',
}
OUTSIDE = ['Python-level traversal orders other than pre/post (timeasc, minlex_postorder, inorder)',
           'non-dyadic coordinates (the code under test only compares and copies coordinates)',
           'tsk_diff_iter / edge_diffs (covered by C06-style checks only)', 'CPython marshalling in _tskitmodule.c']
ASSUMPTIONS = ['valid inputs are produced by real add_row + build_index and filtered by the real tsk_treeseq_init',
               'node times from the concrete profile list in harness/treegen.h']
MANIFEST = dict(
    text='Bounded exhaustive symbolic execution of the real index builder, tree-sequence constructor and tree '
         'iterator (first/next/last/prev) against a naive per-position oracle computed from the input rows: parent '
         'map, intervals/breakpoints, child/sibling arrays, roots under the threshold, sample/tracked counts, sample '
         'lists, edge array, traversals, mrca/depth/branch length, per-tree sites.',
    note='Bounded sizes and a fixed list of node-time profiles; trusts clang IR, the engine (cross-checked by native '
         'replay of sampled paths) and z3.',
    technique='symbolic execution of LLVM IR + SMT (z3), bounded, differential against a naive oracle')
