"""C01: marginal trees are exactly what the node and edge tables say (C iterator by llsym; the Python edge_diffs /
edgesets programs by CrossHair)."""
import json
import os
import sys

HERE = os.path.dirname(os.path.dirname(os.path.abspath(__file__)))
sys.path.insert(0, os.path.join(HERE, 'engine'))

H = 'c01_trees.c'
M = 'c01_props'


def jobs(tier):
    q = [
        dict(name='n3e2-all-profiles', harness=H, entry='main_c01',
             defines=dict(NN=3, NE=2, NE_MIN=0, NS=1, TP_HI=4, SP_HI=4), timeout=600,
             require_tags={'end': 1, 'accept': 1, 'multi-tree': 1}),
        dict(name='n4e3', harness=H, entry='main_c01',
             defines=dict(NN=4, NE=3, TP_HI=0, SP_HI=0, PASSES=1), timeout=900,
             require_tags={'end': 1, 'accept': 1, 'multi-tree': 1}),
    ]
    if tier == 'quick':
        return q
    return q + [
        dict(name='n4e3-all-passes', harness=H, entry='main_c01',
             defines=dict(NN=4, NE=3, TP_HI=1, SP_HI=0, PASSES=6), timeout=2400,
             require_tags={'end': 1, 'accept': 1, 'multi-tree': 1}),
        dict(name='n4e3-more-profiles', harness=H, entry='main_c01',
             defines=dict(NN=4, NE=3, NS=1, TP_LO=2, TP_HI=4, SP_LO=1, SP_HI=2), timeout=3000, allow_incomplete=True,
             require_tags={'end': 1, 'accept': 1, 'multi-tree': 1}),
        dict(name='n5e4', harness=H, entry='main_c01',
             defines=dict(NN=5, NE=4, TP_HI=0, SP_HI=0), timeout=3000, allow_incomplete=True,
             require_tags={'end': 1, 'accept': 1, 'multi-tree': 1}),
    ]


def conds(tier):
    f = 4 if tier == 'thorough' else 1
    env = {'CH_PRECISE_FLOATS': '1'}
    enc = ['tskit.trees.TreeSequence._edge_diffs_forward', 'tskit.trees.TreeSequence._edge_diffs_reverse',
           'tskit.trees.TreeSequence.edgesets']
    names = ['edge_diffs_forward_same_pair', 'edge_diffs_reverse_same_pair', 'edgesets_same_pair',
             'edge_diffs_forward_siblings', 'edge_diffs_reverse_siblings', 'edgesets_siblings']
    if tier == 'thorough':
        names += ['edge_diffs_forward_three', 'edge_diffs_reverse_three', 'edgesets_three']
    what = {'same_pair': 'two disjoint (possibly abutting) edges of one parent/child pair', 'siblings': 'two arbitrarily overlapping sibling edges',
            'three': 'a split pair plus an overlapping sibling'}
    return [dict(module=M, function=n, timeout=(150 if 'three' not in n else 300) * f, env=env, encodes=enc,
                 what='%s, coordinates symbolic binary64' % what[[k for k in what if n.endswith(k)][0]])
            for n in names]


BOUNDS = {
    'quick': 'nodes<=4, edges<=3 (0..2 edges with 5 time profiles x 5 sample profiles and one site, all option passes; 3 edges with 1 '
             'time profile, default options only), parent/child ids enumerated, edge coordinates and site positions solver variables '
             '(integer-valued in [0,2E+1], which realises every order type of 2E end-points), three tree option '
             'passes per table class (default; sample lists + root_threshold 2 + tracked sample; no sample counts), '
             'forward and backward iteration. Python: _edge_diffs_forward/_reverse and edgesets() on 2 edges of one parent (same child, '
             'disjoint or abutting; or two siblings, any overlap) with all four coordinates symbolic binary64 values',
    'thorough': 'as quick plus 4 nodes/3 edges under the remaining time/sample profiles and 5 nodes/4 edges '
                '(time-boxed; incomplete exploration is reported as such); Python: plus 3 edges (split pair + sibling)',
}
OUTSIDE = ['Python-level traversal orders other than pre/post (timeasc, minlex_postorder, inorder)',
           'non-dyadic coordinates (the code under test only compares and copies coordinates)',
           'the C tsk_diff_iter', 'Python edge_diffs/edgesets with more than 3 edges or several parents', 'CPython marshalling in _tskitmodule.c']
ASSUMPTIONS = ['valid inputs are produced by real add_row + build_index and filtered by the real tsk_treeseq_init',
               'node times from the concrete profile list in harness/treegen.h',
               'Python contracts: the fake tree sequence supplies the two index orders by sorting the symbolic coordinates with the '
               'build_index keys (the C index builder itself is exercised by the C jobs); CrossHair restricted to its exact IEEE float model']
MANIFEST = dict(
    text='Bounded exhaustive symbolic execution of the real index builder, tree-sequence constructor and tree '
         'iterator (first/next/last/prev) against a naive per-position oracle computed from the input rows: parent '
         'map, intervals/breakpoints, child/sibling arrays, roots under the threshold, sample/tracked counts, sample '
         'lists, edge array, traversals, mrca/depth/branch length, per-tree sites.  CrossHair on the real Python '
         '_edge_diffs_forward/_reverse and edgesets(): intervals partition the genome at exactly the edge end-points, edges '
         'in/out are exactly those starting/ending there, edgesets list exactly the children the edge rows give.',
    note='Bounded sizes and a fixed list of node-time profiles; trusts clang IR, the engine (cross-checked by native '
         'replay of sampled paths) and z3.',
    technique='symbolic execution of LLVM IR + SMT (z3) and of Python (CrossHair), bounded, differential against a naive oracle')


def run(pid, tier, seed, only=None):
    """C jobs through the llsym driver, Python contracts through CrossHair; one merged evidence file."""
    from engine import driver
    import chdriver
    out = os.environ.get('VERIF_OUT', HERE)
    chk = driver.Check(pid, tier)
    try:
        js = jobs(tier)
        if only:
            js = [j for j in js if only in j['name']]
        if js:
            chk.run_c_jobs(js)
        cov = chk.c_coverage(BOUNDS[tier], OUTSIDE)
        rc_c = chk.finish('model_checking', cov, ASSUMPTIONS, seed)
    finally:
        chk.cleanup()
    ev_c = json.load(open(os.path.join(out, 'evidence', pid + '.json')))
    cs = conds(tier)
    if only:
        cs = [c for c in cs if only in c['function']]
    rc_p = chdriver.run(pid, tier, seed, cs, BOUNDS[tier], OUTSIDE, ASSUMPTIONS, ['fake tree sequence: edge columns, index orders, get_edge']) if cs else 0
    ev_p = json.load(open(os.path.join(out, 'evidence', pid + '.json')))
    ev = ev_c
    ev['coverage']['crosshair'] = ev_p['coverage']
    ev['coverage']['states'] += ev_p['coverage']['states']
    ev['coverage']['traces_validated_against_impl'] += ev_p['coverage']['traces_validated_against_impl']
    ev['violations'] = ev_c.get('violations', 0) + ev_p.get('violations', 0)
    ev['harness_errors'] = ev_c.get('harness_errors', []) + ev_p.get('harness_errors', [])
    ev['known_findings'] = sorted(set(ev_c.get('known_findings', []) + ev_p.get('known_findings', [])))
    ev['wall_s'] = round(ev_c['wall_s'] + ev_p['wall_s'], 2)
    json.dump(ev, open(os.path.join(out, 'evidence', pid + '.json'), 'w'), indent=1)
    return 1 if 1 in (rc_c, rc_p) else 3 if 3 in (rc_c, rc_p) else 0
