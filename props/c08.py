"""C08 (narrow): four statistics equal their definitions and are additive over windows in the exact-integer regime (C);
the Python sample_count_stat builds the indicator weights and Tree.rf_distance follows its definition (CrossHair)."""
import os
import sys

HERE = os.path.dirname(os.path.dirname(os.path.abspath(__file__)))
sys.path.insert(0, os.path.join(HERE, 'engine'))

H = 'c08_stats.c'


def conds(tier):
    enc = ['tskit.trees.TreeSequence.sample_count_stat']
    return [
        dict(module='c08_props', function='indicator_weights', timeout=120, encodes=enc,
             what='W[i][k] = 1 iff the i-th sample is in set k, for 3 samples whose node ids are not 0..n-1 and every membership pattern of two sets; options passed through'),
        dict(module='c08_props', function='rf_distance_definition', timeout=150, encodes=['tskit.trees.Tree.rf_distance', 'tskit.trees.Tree._get_sample_sets'],
             what='Tree.rf_distance = size of the symmetric difference of the clade sets for all pairs of 4 rooted 3-leaf shapes; ValueError for several roots or different sample nodes'),
        dict(module='c08_props', function='non_samples_and_duplicates_rejected', timeout=120,
             what='repeated elements / non-sample nodes in a sample set raise ValueError'),
    ]


def jobs(tier):
    q = [
        dict(name='n3e2', harness=H, entry='main_c08', defines=dict(NN=3, NE=2, NS=0, NM=0, TP_HI=0, SP_HI=1), timeout=900,
             require_tags={'end': 1, 'accept': 1}),
        dict(name='fixed-table', harness=H, entry='main_c08', defines=dict(NN=4, NE=4, NS=1, NM=2, FIXED_TABLE=1), timeout=900,
             require_tags={'end': 1, 'accept': 1}),
        dict(name='afs-fixed-table', harness='c08_afs.c', entry='main_c08', defines=dict(NN=4, NE=4, NS=1, NM=2, FIXED_TABLE=1), timeout=900,
             require_tags={'end': 1, 'accept': 1, 'counted-allele': 1}),
        dict(name='divmat-fixed-table', harness='c08_divmat.c', entry='main_c08', defines=dict(NN=4, NE=4, NS=1, NM=2, FIXED_TABLE=1), timeout=900,
             require_tags={'end': 1, 'accept': 1, 'mrca': 1, 'disconnected': 1, 'differ': 1}),
        dict(name='afs-n3e2-two-samples', harness='c08_afs.c', entry='main_c08', defines=dict(NN=3, NE=2, NS=0, NM=0, TP_HI=0, SP_LO=0, SP_HI=0), timeout=900,
             require_tags={'end': 1, 'accept': 1}),
        dict(name='paircoal-fixed-table', harness='c08_paircoal.c', entry='main_c08', defines=dict(NN=4, NE=4, NS=0, FIXED_TABLE=1), timeout=600,
             require_tags={'end': 1, 'accept': 1, 'coalesces': 1, 'at-a-sample': 1}),
        dict(name='paircoal-n3e2', harness='c08_paircoal.c', entry='main_c08', defines=dict(NN=3, NE=2, NS=0, TP_HI=0, SP_LO=1, SP_HI=2), timeout=900,
             require_tags={'end': 1, 'accept': 1, 'coalesces': 1, 'at-a-sample': 1}),
    ]
    if tier == 'quick':
        return q
    return q + [
        dict(name='paircoal-n4e3', harness='c08_paircoal.c', entry='main_c08', defines=dict(NN=4, NE=3, NS=0, TP_HI=0, SP_LO=0, SP_HI=2), timeout=3000,
             allow_incomplete=True, require_tags={'end': 1, 'accept': 1, 'coalesces': 1}),
        dict(name='afs-n3e2', harness='c08_afs.c', entry='main_c08', defines=dict(NN=3, NE=2, NS=0, NM=0, TP_HI=0, SP_LO=1, SP_HI=2), timeout=1500,
             require_tags={'end': 1, 'accept': 1}),
        dict(name='divmat-n3e2', harness='c08_divmat.c', entry='main_c08', defines=dict(NN=3, NE=2, NS=0, NM=0, TP_HI=0, SP_LO=1, SP_HI=2), timeout=1500,
             require_tags={'end': 1, 'accept': 1, 'mrca': 1, 'disconnected': 1}),
        dict(name='divmat-n4e3', harness='c08_divmat.c', entry='main_c08', defines=dict(NN=4, NE=3, NS=0, NM=0, TP_HI=0, SP_LO=1, SP_HI=2), timeout=3000,
             allow_incomplete=True, require_tags={'end': 1, 'accept': 1, 'mrca': 1}),
        dict(name='afs-n3e2-sites', harness='c08_afs.c', entry='main_c08', defines=dict(NN=3, NE=2, NS=1, NM=1, TP_HI=0, SP_LO=1, SP_HI=2), timeout=3000,
             allow_incomplete=True, require_tags={'end': 1, 'accept': 1, 'counted-allele': 1}),
        dict(name='afs-n4e3', harness='c08_afs.c', entry='main_c08', defines=dict(NN=4, NE=3, NS=0, NM=0, TP_HI=0, SP_LO=1, SP_HI=2), timeout=3000,
             allow_incomplete=True, require_tags={'end': 1, 'accept': 1}),
        dict(name='n3e2-sites', harness=H, entry='main_c08', defines=dict(NN=3, NE=2, NS=1, NM=1, TP_HI=0, SP_HI=0), timeout=3000,
             allow_incomplete=True, require_tags={'end': 1, 'accept': 1}),
        dict(name='n4e3', harness=H, entry='main_c08', defines=dict(NN=4, NE=3, NS=0, NM=0, TP_HI=0, SP_HI=0), timeout=3000,
             allow_incomplete=True, require_tags={'end': 1, 'accept': 1}),
    ]


BOUNDS = {
    'quick': 'tsk_treeseq_general_stat, state_dim = output_dim = 1, identity summary function, weights = indicator of two sample '
             'sets (all samples / all but the first), branch / node / site mode, polarised on/off, span_normalise off, windows [0,L] and [0,b,L] '
             'with b a solver variable; every valid 3-node 2-edge tree sequence class (branch and node mode, 2 sample profiles), and the fixed 5-tree table '
             'with one site at a symbolic position and 2 mutations (alleles "A" or "C" over ancestral "AT"; all three modes).  tsk_treeseq_allele_frequency_spectrum: '
             'branch and site mode, polarised and folded, sample sets {all}, {all but the first}, {first}+{rest} (joint spectrum), windows [0,b,L]; '
             'the same fixed table with its site and 2 mutations, and every 3-node 2-edge class with two samples (joint spectrum of two singletons: the folding tie-break).  tsk_treeseq_divergence_matrix between single samples, branch and site mode, windows [0,L] and [0,b,L], same fixed table.  tsk_treeseq_pair_coalescence_counts per node, pairs within {all} / {all but the first} or between {first} and {rest}, '
             'no normalisation, windows [0,L] and [0,b,L] (all coordinates even integers), fixed table and every 3-node 2-edge class with 2 sample profiles',
    'thorough': 'plus AFS and divergence matrix (branch mode) on every 3-node 2-edge class with 2 sample profiles (incl. an internal sample), divergence matrix and pair coalescence counts on 4-node 3-edge classes, AFS site mode on all 3-node classes, AFS branch mode on 4-node 3-edge classes, general_stat site mode on all 3-node classes and branch/node mode on 4-node 3-edge classes (time-boxed)',
}
OUTSIDE = ['every statistic that divides or uses non-integer weights other than the folded AFS half-weights: span_normalise=True, diversity, Fst, Tajimas_D, f-statistics, '
           'LD, relatedness, divergence matrix between sets of more than one sample, pair coalescence with time windows / quantiles / rates / normalisation ... (floating point is their subject)',
           'worker threads / num_threads (no concurrency in the engine)', 'Python argument shaping other than the sample_count_stat weight matrix (numpy)',
           'windows given as "trees"/"sites"', 'summary functions other than the identity']
ASSUMPTIONS = ['pair coalescence: a pair one of whose members is an ancestor of the other is not counted (maintainers\' reading, test_coalrate.py test_internal_samples); halves of spans are kept exact by proving the span even on the path', 'all intermediates are integer-valued doubles, encoded exactly as integers (a path that leaves this regime would end as '
               'inconclusive; none does); the folded site AFS adds concrete halves',
               'folded AFS is specified by its defining properties (mirror-image cell pairs hold the unfolded mass, upper half empty, a pair never split), not by the tie-break order', 'node mode: every node of the tree sequence contributes in every tree (docs/stats.md)']
MANIFEST = dict(
    text='NARROW claim: in the regime where every intermediate of the general statistic framework is an integer-valued double, '
         'the real tsk_treeseq_general_stat (branch, node and site mode, polarised or not) equals the documented definition '
         'evaluated naively per window and is additive over a symbolic window refinement, for all values within the bounds; '
         'the real tsk_treeseq_allele_frequency_spectrum (branch/site, polarised/folded, one set or the joint spectrum of two) equals the docs/stats.md definition per window; the real tsk_treeseq_divergence_matrix between single samples (branch: path lengths to the MRCA or to the own roots; site: differing alleles) equals its definition, is symmetric with zero diagonal and additive over the refinement; the real tsk_treeseq_pair_coalescence_counts equals span x number of sample pairs with that MRCA per node and window.  '
         'Normalised statistics, the named statistics built on non-trivial summary functions and thread schedules are NOT covered.',
    note='Only the incremental state propagation, window accounting and allele weighting of the general framework and of the AFS; see outside_claim.',
    technique='symbolic execution of LLVM IR + SMT (z3) with exact integer-backed doubles, bounded, differential against the definition; CrossHair on the Python weight-matrix construction')


def run(pid, tier, seed, only=None):
    import mixed
    return mixed.run_mixed(pid, tier, seed, only, jobs(tier), conds(tier), BOUNDS[tier], OUTSIDE, ASSUMPTIONS,
                           ['fake tree sequence: samples(), node().is_sample(), general_stat recorder', 'fake tree for rf_distance: nodes(postorder), children, is_sample, samples, num_roots'])
