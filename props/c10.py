"""C10: truncated or corrupted files are rejected, never loaded as something else."""

H = 'c10_corrupt.c'


def J(name, defines, **kw):
    d = dict(name=name, harness=H, entry='main_c10', defines=defines, timeout=900, require_tags={'end': 1})
    d.update(kw)
    return d


def jobs(tier):
    q = [
        J('truncation', dict(MODE=1)),
        J('kastore-structure', dict(MODE=2), require_tags={'end': 1, 'accepted': 1}),
        J('tsk-header', dict(MODE=3, POS_LO=0, POS_HI=63)),
        J('tsk-descriptor-first', dict(MODE=3, POS_LO=64, POS_HI=127)),
        J('tsk-descriptors-lentop', dict(MODE=3, POS_LO=103, POS_HI=103 + 64 * 61, POS_STEP=64)),
        J('tsk-keys-sample', dict(MODE=3, REGION_KEYS=1, POS_LO=0, POS_HI=1400, POS_STEP=41)),
        J('tsk-data-sample', dict(MODE=4, REGION_DATA=1, POS_LO=0, POS_HI=900, POS_STEP=29),
          require_tags={'end': 1, 'accepted': 1}),
        J('tsk-offset-arrays', dict(MODE=4, REGION_OFFSETS=1), require_tags={'end': 1, 'accepted': 1}),
    ]
    if tier == 'quick':
        return q
    t = [
        J('tsk-descriptors-all', dict(MODE=3, POS_LO=128, POS_HI=63 + 64 * 62), timeout=5000, allow_incomplete=True),
        J('tsk-keys-all', dict(MODE=3, REGION_KEYS=1, POS_LO=0, POS_HI=1400, POS_STEP=1), timeout=3000, allow_incomplete=True),
        J('tsk-data-all', dict(MODE=4, REGION_DATA=1, POS_LO=0, POS_HI=900, POS_STEP=1), timeout=3000, allow_incomplete=True,
          require_tags={'end': 1, 'accepted': 1}),
    ]
    return q + t


BOUNDS = {
    'quick': 'one dumped collection (3 nodes, 2 edges, 1 site/mutation/migration/individual/population/provenance, metadata, '
             'reference sequence, index); truncation: every prefix length as one solver variable, first or second object on '
             'a stream, eager and skip_tables / skip_reference_sequence paths; corruption: one byte with a free value at every '
             'header byte, every byte of the first descriptor, the top array_len byte of every descriptor, '
             'every 41st key byte, every 29th data byte and every byte of every ragged-offset array; every structural byte of a 3-item kastore file',
    'thorough': 'as quick plus every descriptor byte, every key byte and every data byte of the tskit file (time-boxed)',
}
OUTSIDE = ['multi-byte substitutions', 'raise_known_file_format_errors (Python message mapping)', 'other dumped collections',
           'I/O errors other than end-of-file']
ASSUMPTIONS = ['FILE* is the engine\'s in-memory stub; fread returns min(requested, remaining) with the remaining length symbolic']
MANIFEST = dict(
    text='Symbolic execution of the real kastore reader and tskit loader on file images with a symbolic length (every crash '
         'point is one solver variable) or one free byte at enumerated structural / data positions: load fails, or (data '
         'region) yields an object that round-trips; memory monitors active throughout.',
    note='One fixed small collection; single-byte substitutions; positions enumerated (sampled in quick), values symbolic.',
    technique='symbolic execution of LLVM IR + SMT (z3); symbolic file length and byte values, enumerated positions')
