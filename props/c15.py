"""C15: tree ranks are a bijection; topology counts match brute force (CrossHair on combinatorics.py)."""
import os
import sys

sys.path.insert(0, os.path.join(os.path.dirname(os.path.dirname(os.path.abspath(__file__))), 'engine'))

M = 'c15_props'
ENC = ['tskit.combinatorics.RankTree.unrank', 'RankTree.shape_unrank', 'RankTree.label_unrank', 'RankTree.rank',
       'compute_shape_rank', 'compute_label_rank', 'children_shape_ranks', 'children_label_ranks', 'group_rank',
       'group_label_ranks', 'num_shapes', 'num_tree_pairings', 'num_labellings', 'Combination.*', 'partitions',
       'rule_asc', 'group_by', 'RankTree.from_tsk_tree', 'RankTree.all_labelled_trees', 'all_unlabelled_trees',
       'tree_count_topologies', 'TopologyCounter', 'PartialTopologyCounter']


def conds(tier):
    q = [
        dict(module=M, function='unrank_rank', timeout=170, encodes=ENC,
             what='unrank(n,(s,l)).rank()==(s,l) in range, ValueError outside; n<=4, s<=6, l<=16 symbolic'),
        dict(module=M, function='unrank_rank_n5a', timeout=170, what='the same for n=5, s<=5, l<=62'),
        dict(module=M, function='unrank_rank_n5b', timeout=170, what='the same for n=5, 6<=s<=8, l<=62'),
        dict(module=M, function='unrank_rank_n5c', timeout=170, what='the same for n=5, 9<=s<=13 (12, 13 out of range), l<=62'),
        dict(module=M, function='negative_ranks_rejected', timeout=60, what='negative shape/label ranks raise'),
        dict(module=M, function='comb_roundtrip', timeout=90, what='Combination.unrank/rank inverse, n<=6'),
        dict(module=M, function='wr_roundtrip', timeout=90, what='with_replacement_unrank/rank inverse, n<=5,k<=4'),
        dict(module=M, function='comb_counts', timeout=90, what='comb/comb_with_replacement equal itertools counts'),
        dict(module=M, function='rank_invariant_n3', timeout=150,
             what='rank invariant under child rotation/reversal and pre/post-order node numbering (fake tree), n=3'),
        dict(module=M, function='rank_invariant_n4', timeout=170,
             what='rank invariant under child rotation and pre/post-order node numbering (fake tree), n=4'),
        dict(module=M, function='rank_invariant_n4_reversed', timeout=170,
             what='rank invariant under child rotation+reversal and pre/post-order node numbering (fake tree), n=4'),
        dict(module=M, function='all_trees_in_rank_order', timeout=120, what='all_labelled_trees(n) in rank order, n<=4'),
        dict(module=M, function='all_shapes_in_rank_order', timeout=120, what='all_unlabelled_trees(n) in rank order, n<=6'),
        dict(module=M, function='count_topologies_shape0', timeout=170,
             what='tree_count_topologies == brute force over one-sample-per-set choices; tree shape 0 of 5 x symbolic '
                  'assignment of the samples to <=3 sets'),
        dict(module=M, function='count_topologies_shape1', timeout=170,
             what='tree_count_topologies == brute force over one-sample-per-set choices; tree shape 1 of 5 x symbolic '
                  'assignment of the samples to <=3 sets'),
        dict(module=M, function='count_topologies_shape2b', timeout=170, what='shape 2 (5-leaf caterpillar), a0 in {2, none}'),
        dict(module=M, function='count_topologies_shape2', timeout=170,
             what='tree_count_topologies == brute force over one-sample-per-set choices; tree shape 2 of 5 x symbolic '
                  'assignment of the samples to <=3 sets'),
        dict(module=M, function='count_topologies_shape3', timeout=170,
             what='tree_count_topologies == brute force over one-sample-per-set choices; tree shape 3 of 5 x symbolic '
                  'assignment of the samples to <=3 sets'),
        dict(module=M, function='count_topologies_shape4', timeout=170,
             what='tree_count_topologies == brute force over one-sample-per-set choices; tree shape 4 of 5 x symbolic '
                  'assignment of the samples to <=3 sets'),
        dict(module=M, function='count_topologies_two_roots', timeout=170,
             what='tree_count_topologies on a two-root tree: per-root counts add up'),
    ]
    if tier == 'thorough':
        for c in q:
            c['timeout'] *= 5
        q.append(dict(module=M, function='unrank_rank_n6', timeout=1500, allow_inconclusive_thorough=True,
                      what='unrank/rank bijection for n=6, s<=7, l<=400'))
    return q


BOUNDS = {'quick': 'n<=5 (bijection), n<=6 (combinations, shapes), n<=4 (all_trees order, invariance); topology counts on '
                   '5 fixed tree shapes (polytomy, unary node, caterpillar) with symbolic sample-set assignment',
          'thorough': 'as quick with 5x budgets plus the n=6 bijection'}
OUTSIDE = ['big-integer ranks for large n', 'treeseq_count_topologies incremental update (numpy object arrays + edge diffs)',
           'to_tsk_tree / Tree.rank marshalling through the C library']
ASSUMPTIONS = ['CrossHair path exploration with z3; fake tree objects expose exactly the attributes RankTree.from_tsk_tree and '
               'tree_count_topologies read']
MANIFEST = dict(engine='crosshair',
                text='CrossHair symbolic execution of the real combinatorics module: rank/unrank bijection and rejection of '
                     'out-of-range ranks for symbolic n, shape and label ranks; rank invariance; enumeration order; topology '
                     'counts against brute force. Every condition must be "Confirmed over all paths" and has a reachability twin.',
                note='Bounded n and rank ranges; trusts CrossHair 0.0.110 and z3.',
                technique='symbolic execution of Python (CrossHair) + SMT (z3), bounded')


def run(pid, tier, seed, only=None):
    import chdriver
    cs = conds(tier)
    if only:
        cs = [c for c in cs if only in c['function']]
    return chdriver.run(pid, tier, seed, cs, BOUNDS[tier], OUTSIDE, ASSUMPTIONS)
