"""C16: VCF output states exactly the genotypes of the tree sequence (CrossHair on vcf.py)."""
import os
import sys

sys.path.insert(0, os.path.join(os.path.dirname(os.path.dirname(os.path.abspath(__file__))), 'engine'))

M = 'c16_props'
ENC = ['tskit.vcf.VcfWriter.__init__', 'VcfWriter.__make_sample_mapping', 'VcfWriter.write', 'VcfWriter.__write_header',
       'tskit.vcf.legacy_position_transform']


def conds(tier):
    f = 5 if tier == 'thorough' else 1
    return [
        dict(module=M, function='site_mask_bool_list', timeout=170 * f, encodes=ENC,
             what='2 sites x 2 samples, positions/genotypes/mask bits symbolic, site mask given as a list of bools (ploidy 1/2): lines, POS/ID/REF/ALT, phased GT, position-zero error rule'),
        dict(module=M, function='site_mask_tuple', timeout=170 * f, encodes=ENC,
             what='2 sites x 2 samples, positions/genotypes/mask bits symbolic, site mask given as a tuple: lines, POS/ID/REF/ALT, phased GT, position-zero error rule'),
        dict(module=M, function='site_mask_int_list', timeout=170 * f, encodes=ENC,
             what='2 sites x 2 samples, positions/genotypes/mask bits symbolic, site mask given as a list of 0/1 ints: lines, POS/ID/REF/ALT, phased GT, position-zero error rule'),
        dict(module=M, function='site_mask_bool_array', timeout=170 * f, encodes=ENC,
             what='2 sites x 2 samples, positions/genotypes/mask bits symbolic, site mask given as a bool array: lines, POS/ID/REF/ALT, phased GT, position-zero error rule'),
        dict(module=M, function='site_mask_int_array', timeout=170 * f, encodes=ENC,
             what='2 sites x 2 samples, positions/genotypes/mask bits symbolic, site mask given as an int array: lines, POS/ID/REF/ALT, phased GT, position-zero error rule'),
        dict(module=M, function='site_mask_none', timeout=170 * f, encodes=ENC,
             what='2 sites x 2 samples, positions/genotypes/mask bits symbolic, site mask given as None (ploidy 1/2): lines, POS/ID/REF/ALT, phased GT, position-zero error rule'),
        dict(module=M, function='masked_site_is_irrelevant', timeout=170 * f,
             what='two-run relational: position and genotype of a masked site influence neither output nor error'),
        dict(module=M, function='sample_mask_forms', timeout=170 * f,
             what='3 samples, sample mask as list/tuple/int list/arrays/callable: masked calls are "."'),
        dict(module=M, function='individuals_regrouping_mixed_ploidy', timeout=170 * f,
             what='nodes (0,1)->ind0, 2->ind1; individuals argument None / all / reversed / subset'),
        dict(module=M, function='individuals_regrouping_nonadjacent', timeout=170 * f,
             what='nodes 1->ind0, (0,2)->ind1'),
        dict(module=M, function='individuals_regrouping_haploid', timeout=170 * f, what='three haploid individuals'),
        dict(module=M, function='monomorphic_site', timeout=60 * f, what='site with a single allele, with/without missing calls: ALT is "."'),
        dict(module=M, function='position_transform_and_masks', timeout=170 * f,
             what='3 sites, callable transform (halving) so that several sites map to 0, every mask: error rule and POS'),
        dict(module=M, function='legacy_transform', timeout=60 * f, what='legacy position transform strictly increasing, >= 1'),
    ]


BOUNDS = {'quick': '<=2 sites, <=3 sample nodes, alleles ("A","T"), genotypes in {-1,0,1}, integer positions in [0,10), three '
                   'individual layouts, six mask forms', 'thorough': 'same conditions with 5x budgets'}
OUTSIDE = ['non-integer site positions (float rounding)', 'more than 2 alleles / the 9-allele limit', 'callable position_transform',
           'that Variant supplies correct genotypes (C03)', 'CLI wrapper']
ASSUMPTIONS = ['numpy is replaced by pyprops/nplite.py and the tree sequence by a fake exposing exactly the attributes VcfWriter '
               'reads; builtin print is replaced by an equivalent pure-Python writer (CrossHair silences print)']
STANDINS = ['nplite (numpy subset)', 'FakeTS/_Var (tree sequence, variants)', '_print (print)']
MANIFEST = dict(engine='crosshair',
                text='CrossHair symbolic execution of the real VcfWriter on a fake tree sequence with symbolic positions, '
                     'genotypes, masks (in every accepted form), ploidy and individual layouts; the produced text is parsed '
                     'and compared field by field; masked-site independence as a two-run relational property.',
                note='numpy/tree-sequence stand-ins; small sizes; trusts CrossHair and z3.',
                technique='symbolic execution of Python (CrossHair) + SMT (z3), bounded, with stand-ins at C boundaries')


def run(pid, tier, seed, only=None):
    import chdriver
    cs = conds(tier)
    if only:
        cs = [c for c in cs if only in c['function']]
    return chdriver.run(pid, tier, seed, cs, BOUNDS[tier], OUTSIDE, ASSUMPTIONS, STANDINS)
