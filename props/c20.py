"""C20: map_mutations returns a most-parsimonious placement that reproduces the data."""

H = 'c20_parsimony.c'


def jobs(tier):
    q = [
        dict(name='n4e3', harness=H, entry='main_c20', defines=dict(NN=4, NE=3, NE_MIN=1, ONE_TREE=1, TP_HI=1, SP_HI=2),
             timeout=900, require_tags={'end': 1, 'accept': 1, 'all-missing': 1}),
        dict(name='n3e2-allele40', harness=H, entry='main_c20', defines=dict(NN=3, NE=2, NE_MIN=1, ONE_TREE=1, TP_HI=0, SP_HI=1, HIGH_ALLELE=40),
             timeout=900, require_tags={'end': 1, 'accept': 1}),
        dict(name='kernel-allele-sets', harness='k_trees.c', entry='main_kernel', defines=dict(KERNEL=7), timeout=300,
             require_tags={'end': 64, 'high': 32}),
    ]
    if tier == 'quick':
        return q
    return q + [
        dict(name='n4e3-allele63', harness=H, entry='main_c20', defines=dict(NN=4, NE=3, NE_MIN=2, ONE_TREE=1, TP_HI=0, SP_HI=1, HIGH_ALLELE=63),
             timeout=3000, allow_incomplete=True, require_tags={'end': 1, 'accept': 1}),
        dict(name='n5e4', harness=H, entry='main_c20', defines=dict(NN=5, NE=4, NE_MIN=3, ONE_TREE=1, TP_HI=0, SP_HI=2),
             timeout=3000, allow_incomplete=True, require_tags={'end': 1, 'accept': 1, 'all-missing': 1}),
    ]


BOUNDS = {
    'quick': 'every one-tree sequence with 4 nodes and 1-3 edges under 2 time profiles x 3 sample profiles (2 or 3 samples, '
             'incl. an internal sample; polytomies, unary chains, multiple roots, isolated samples), genotypes per sample '
             'enumerated over {-1,0,1,2}, ancestral state free or fixed to 0,1,2; 3-node trees also with allele 40 in place of 2 (bit-set arithmetic above bit 31); allele-set kernel: get_smallest_set_bit / set_bit / bit_is_set for every non-empty 64-bit set and every allele index',
    'thorough': 'plus 5 nodes with 3-4 edges (time-boxed)',
}
OUTSIDE = ['alleles other than 0,1,2,40 (63 in thorough) and the rejected values 64 and above (see C09 harness for the bounds checks)',
           'allele string translation in Tree.map_mutations (Python)', 'trees with more than 5 nodes']
ASSUMPTIONS = ['Sankoff cost table in the harness (alphabet {0,1,2}) is the parsimony reference']
MANIFEST = dict(
    text='Bounded exhaustive symbolic execution of the real tsk_tree_map_mutations on every small one-tree sequence and '
         'genotype vector, against (i) a replay of the returned placement, (ii) an independent Sankoff minimum, (iii) the '
         'ordering / parent-link rule and (iv) the unary-chain rule.',
    note='Finite enumeration inside the engine (structures and genotypes are enumerated choices); trusts clang IR, engine, z3.',
    technique='symbolic execution of LLVM IR (enumerated small scope) + SMT (z3), differential against a Sankoff DP')
