"""C12: metadata codecs decode what they encode and honour the schema (CrossHair on metadata.py struct codec)."""
import os
import sys

sys.path.insert(0, os.path.join(os.path.dirname(os.path.dirname(os.path.abspath(__file__))), 'engine'))

M = 'c12_props'
ENC = ['tskit.metadata.StructCodec.make_encode/make_decode', 'make_array_encode/decode', 'make_object_encode/decode',
       'make_object_or_null_encode/decode', 'make_string_encode/decode', 'make_null_encode/decode',
       'make_numeric_encode/decode', 'StructCodec.order_by_index', 'StructCodec.modify_schema', 'MetadataSchema.encode_row/decode_row']


def conds(tier):
    f = 5 if tier == 'thorough' else 1
    return [
        dict(module=M, function='integer_formats_narrow', timeout=170 * f, encodes=ENC,
             what='b/B/h/H, value symbolic over [-32771, 65538]: width, round trip, range rejection'),
        dict(module=M, function='integer_formats_wide', timeout=170 * f,
             what='i/I/l/L/q/Q at lower bound / zero / upper bound + d, d symbolic in [-3,3]'),
        dict(module=M, function='layout_follows_index_then_name', timeout=120 * f,
             what='27 index assignments of three fields (declared in reverse name order) + no index + partial index: byte layout sorted by (index, name), stable'),
        dict(module=M, function='array_length_prefix', timeout=120 * f,
             what='arrayLengthFormat B/H/I/L/Q/default: prefix width and value, elements, round trip; lists <= 3'),
        dict(module=M, function='fixed_length_array', timeout=90 * f, what='fixed length arrays: no prefix, wrong length rejected'),
        dict(module=M, function='exhaust_buffer_array', timeout=90 * f, what='noLengthEncodingExhaustBuffer arrays round trip'),
        dict(module=M, function='nested_padding_defaults', timeout=90 * f,
             what='nested object, bool, 2x padding, default filling: exact bytes and decoded object'),
        dict(module=M, function='object_or_null', timeout=60 * f, what='object|null top level: None <-> empty bytes'),
        dict(module=M, function='object_or_null_with_defaults', timeout=60 * f,
             what='object|null with an all-default object: None, {} and a full object stay distinct'),
        dict(module=M, function='fixed_width_strings', timeout=120 * f,
             what='3s strings of 0-4 symbolic ASCII chars: padding, truncation, nullTerminated'),
        dict(module=M, function='char_format', timeout=60 * f, what='c format'),
    ]


BOUNDS = {'quick': '~45 concrete struct schemas built by the real MetadataSchema; object contents symbolic (ints over the full '
                   'format ranges, lists <= 3, strings <= 4 ASCII chars)', 'thorough': 'same conditions with 5x budgets'}
OUTSIDE = ['binary32/binary64 fields (floating point)', 'meta-schema rejection and object validation (jsonschema on symbolic values)',
           'numpy_dtype / structured_array_from_buffer (numpy)', 'JSON codec (json C accelerator)', 'symbolic index values (27 '
           'concrete assignments instead)', 'non-ASCII strings', 'table-level row insertion']
ASSUMPTIONS = ['struct is replaced by pyprops/pystruct.py, compared with the real struct module on boundary values at start-up']
MANIFEST = dict(engine='crosshair',
                text='CrossHair symbolic execution of the real struct-codec encoder/decoder closures over symbolic objects for a '
                     'family of schemas covering every integer format, index ordering, array length encodings, nested objects, '
                     'padding, defaults, null and fixed-width strings; exact byte layouts asserted.',
                note='struct stand-in (self-checked against struct); floats, jsonschema validation and numpy views outside.',
                technique='symbolic execution of Python (CrossHair) + SMT (z3), bounded, with a struct stand-in')


def run(pid, tier, seed, only=None):
    import chdriver
    cs = conds(tier)
    if only:
        cs = [c for c in cs if only in c['function']]
    return chdriver.run(pid, tier, seed, cs, BOUNDS[tier], OUTSIDE, ASSUMPTIONS, ['pystruct (struct)'], ['c12_props:selfcheck'])
