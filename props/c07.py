"""C07: sort and repair tools reorder without changing content; result loads."""

H = 'c07_sort.c'


def J(name, defines, **kw):
    d = dict(name=name, harness=H, entry='main_c07', defines=defines, timeout=900, require_tags={'end': 1})
    d.update(kw)
    return d


def jobs(tier):
    q = [
        J('sort-edges', dict(MODE=1, NR=3)),
        J('sort-sites-mutations', dict(MODE=2, NR=3, NSITES=2)),
        J('sort-sites3-mutations2', dict(MODE=2, NR=2, NSITES=3)),
        J('sort-migrations', dict(MODE=3, NR=3)),
        J('mutation-parents', dict(MODE=4, NN=3, NE=2, NS=2, NR=2, TP_HI=0, SP_HI=0),
          require_tags={'end': 1, 'accept': 1, 'parent-after-child': 1}),
        J('canonicalise-row-orders', dict(MODE=5)),
        J('deduplicate-sites', dict(MODE=6, NR=2, NSITES=3), require_tags={'end': 1, 'merged': 1, 'unsorted': 1}),
        J('squash-edges', dict(MODE=7, NR=3), require_tags={'end': 1, 'squashed': 1}),
        dict(name='kernel-comparators', harness='k_kernels.c', entry='main_kernel', defines=dict(KERNEL=5), timeout=600,
             require_tags={'end': 9}),
    ]
    if tier == 'quick':
        return q
    return q + [
        J('sort-edges4', dict(MODE=1, NR=4), timeout=3000, allow_incomplete=True),
        J('mutation-parents-3', dict(MODE=4, NN=3, NE=2, NS=2, NR=3, TP_HI=0, SP_HI=0), timeout=3000,
          require_tags={'end': 1, 'accept': 1, 'parent-after-child': 1}),
        J('sort-sites3-mutations3', dict(MODE=2, NR=3, NSITES=3), timeout=3000, allow_incomplete=True),
        J('mutation-parents-n4', dict(MODE=4, NN=4, NE=3, NS=2, NR=3, TP_HI=0, SP_HI=0), timeout=3000, allow_incomplete=True,
          require_tags={'end': 1, 'accept': 1, 'parent-after-child': 1}),
    ]


BOUNDS = {
    'quick': 'deduplicate_sites: 3 sites at symbolic positions (sorted or not) x 2 mutations; EdgeTable.squash: 3 edges of one parent, 2 children, symbolic coordinates; comparator kernel: cmp_edge/site/mutation/mutation_canonical/migration/individual_canonical/index_sort/segment/edge_cl on three records with free 32-bit ids and free non-NaN binary64 keys (mutation times known or UNKNOWN per site): antisymmetric, transitive, zero only on equal keys; sort: 3 edges (parent/child enumerated over nodes with tied times, left symbolic, every edge_start), 2-3 sites x '
             '2-3 mutations (positions and known times symbolic, duplicate positions, unknown times, mutation parents), 3 '
             'migrations (time/left symbolic, source/dest/node enumerated); every row tagged by 1-byte metadata. '
             'compute_mutation_parents: all 3-node 2-edge tree sequence classes x 2 sites x 2 mutations (site/node '
             'enumerated, stale parent values). canonicalise: one 4-node collection with a chain of 3 nested mutations '
             '(unknown times, deeper mutation on the lower node id) at one site and a lone mutation at another, 2 sites with '
             'symbolic distinct positions, 2 edges, 2 individuals (a child listed before its parent in the logical order) and 2 populations; 12 mutation row orders x edge / site / '
             'individual / population row swaps',
    'thorough': 'plus 4 edges, 3 sites x 3 mutations, and 4-node 3-edge tree sequences (time-boxed)',
}
OUTSIDE = ['canonicalise beyond the one enumerated collection (other shapes, migrations, known mutation times, deeper pedigrees)', 'compute_mutation_times', 'deduplicate_sites beyond 3 sites / squash beyond 3 edges of one parent',
           'qsort orders among equal keys other than the stable one', 'individual sorting']
ASSUMPTIONS = ['comparator kernel: the mutations of one site have all-known or all-unknown times (data-model rule; with mixed times cmp_mutation is not transitive - harness self-test MIXED_TIMES)', 'no NaN among node times, positions, left coordinates', 'qsort is modelled as a stable insertion sort (engine/shim.c)', 'documented key orders from TableCollection.sort docstring']
MANIFEST = dict(
    text='Symbolic execution of the real table sorter and compute_mutation_parents with symbolic sort keys: output rows are a '
         'permutation of the input rows identified by metadata tags, in the documented key order, ids remapped, other tables '
         'untouched, idempotent; mutation parents equal the nearest-mutation-above oracle on every small tree sequence class; canonicalise gives identical, loadable tables for every row order of one enumerated collection; deduplicate_sites keeps the first site per position and remaps mutations; squash preserves coverage per parent/child pair and leaves no abutting pieces.',
    note='Bounded row counts; qsort stub is stable; trusts clang IR, engine (native replay of sampled paths), z3.',
    technique='symbolic execution of LLVM IR + SMT (z3), bounded, differential against documented order / naive oracle')
