"""C05: storage and interchange are lossless (C-level dump/load/copy through the FILE stub)."""


def jobs(tier):
    return [dict(name='dump-load-stream', harness='c05_roundtrip.c', entry='main_c05', defines={}, timeout=900,
                 require_tags={'end': 64}, validate=6),
            dict(name='kernel-offset-narrowing', harness='k_kernels.c', entry='main_kernel', defines=dict(KERNEL=3), timeout=600,
                 env=dict(LLSYM_Z3_TIMEOUT_MS='5000', LLSYM_CVC5_TIMEOUT_MS='120000'), require_tags={'end': 1, 'narrow': 1, 'wide': 1})]


BOUNDS = {
    'quick': 'table collections with 0 or 1-3 rows per table (every table kind), all fixed-width fields free 32-bit / '
             'integer-valued doubles, one double slot NaN / +inf / UNKNOWN_TIME by choice, ragged columns with empty and '
             '1-2 byte rows of symbolic bytes, top-level metadata/schema/time-units/reference-sequence symbolic bytes, '
             'with and without (free-valued) index arrays; reference sequence with and without data; three objects back-to-back on one stream, seekable or not, then EOF; offset kernel: write_offset_col -> kastore -> cast_offset_array for a 2-row ragged column whose offsets are free 64-bit values (32-bit narrowing, 64-bit pass-through, FORCE_OFFSET_64)',
    'thorough': 'as quick',
}
OUTSIDE = ['asdict/fromdict, pickle and the Python assert_equals messages (CPython API / numpy)',
           'path-based dump/load (thin wrappers around the FILE* variants)',
           'whole-collection dumps with 64-bit offset columns (need > 4 GiB ragged data; only the offset-column kernel sees them)', 'I/O errors other than end-of-file']
ASSUMPTIONS = ['FILE* is an in-memory byte buffer (engine stub); tsk_generate_uuid writes fixed bytes']
MANIFEST = dict(
    text='Symbolic execution of the real tsk_table_collection_dumpf / loadf / copy / equals and kastore writer+reader '
         'on collections whose cell contents are solver variables: the loaded object equals the dumped one '
         '(tsk_table_collection_equals and independent per-column bit comparisons) for all values; stream framing and EOF.',
    note='Shapes (row counts, ragged lengths) are enumerated, contents symbolic; FILE stub instead of the C library stdio.',
    technique='symbolic execution of LLVM IR + SMT (z3), bounded shapes, symbolic contents')
