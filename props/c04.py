"""C04: simplify preserves the sample genealogy and sample genotypes exactly."""

H = 'c04_simplify.c'


def jobs(tier):
    q = [
        dict(name='n3e2-options', harness=H, entry='main_c04',
             defines=dict(NN=3, NE=2, NS=0, NM=0, TP_HI=0, SP_HI=1, MAXS=3), timeout=900, require_tags={'end': 1, 'accept': 1}),
        dict(name='fixed-table', harness=H, entry='main_c04',
             defines=dict(NN=4, NE=4, NS=1, NM=1, FIXED_TABLE=1, MAXS=3, DEFAULT_OPTIONS_ONLY=1, ROOTS_PASS=1), timeout=900,
             require_tags={'end': 1, 'accept': 1}),
        dict(name='n3e2-populations-individuals', harness=H, entry='main_c04',
             defines=dict(NN=3, NE=2, NS=0, NM=0, TP_HI=0, SP_HI=1, MAXS=2, DEFAULT_OPTIONS_ONLY=1, H_NODE_REFS=1), timeout=900,
             require_tags={'end': 1, 'accept': 1, 'population-dropped': 1}),
        dict(name='n3e2-reduce-to-sites', harness=H, entry='main_c04',
             defines=dict(NN=3, NE=2, NS=2, NM=0, TP_HI=0, SP_HI=0, MAXS=2, DEFAULT_OPTIONS_ONLY=1, REDUCE_PASS=1), timeout=900,
             require_tags={'end': 1, 'accept': 1, 'reduced-edges': 1}),
    ]
    if tier == 'quick':
        return q
    return q + [
        dict(name='n3e2-all-lists', harness=H, entry='main_c04',
             defines=dict(NN=3, NE=2, NE_MIN=1, NS=1, NM=1, TP_HI=1, SP_HI=2, MAXS=3, FULL_ALL=1), timeout=3000,
             allow_incomplete=True, require_tags={'end': 1, 'accept': 1}),
        dict(name='n4e3-default', harness=H, entry='main_c04',
             defines=dict(NN=4, NE=3, NS=1, NM=1, TP_HI=0, SP_HI=0, MAXS=2, DEFAULT_OPTIONS_ONLY=1), timeout=3000,
             allow_incomplete=True, require_tags={'end': 1, 'accept': 1}),
    ]


BOUNDS = {
    'quick': '(a) every valid 3-node 2-edge tree sequence class (edge coordinates symbolic, 2 sample profiles) x every ordered '
             'list of 1-3 distinct nodes (non-samples allowed) x options {default filters, keep_unary, keep_input_roots, '
             'filter_nodes=False + update_sample_flags=False}: ancestry at every position class, node_map, flags, idempotence; '
             '(b) one fixed 4-node 4-edge 5-tree sequence (internal sample, gap) with a site at a symbolic position, a '
             'mutation on an enumerated node and every ordered list of 1-3 nodes under the default options and keep_input_roots: also genotypes, '
             'site filtering and (known mutation times) validity of the mutation placement; (c) reduce_to_site_topology on the 3-node classes with 2 sites at symbolic positions and lists of 1-2 nodes: ancestry at every site = simplified input ancestry there, every output edge covers a site; (d) the 3-node classes with 3 populations and 2 individuals referenced by nodes: filter_populations / filter_individuals on and off (exactly the referenced rows survive in order, nodes keep their rows by tag) and keep_unary_in_individuals',
    'thorough': 'plus all sample/time profiles and lists of 3 nodes on the 3-node classes, and 4-node 3-edge classes under the '
                'default options (time-boxed)',
}
OUTSIDE = ['reduce_to_site_topology beyond 3 nodes / 2 sites', 'individual parents, migrations',
           'migrations', 'provenance, Python defaults']
ASSUMPTIONS = ['oracle: presence rule per position from the simplify documentation, evaluated on the input rows',
               'genotypes compared through the real Variant decoder (checked in C03)']
MANIFEST = dict(
    text='Bounded exhaustive symbolic execution of the real simplifier on every small tree sequence class and sample list: the '
         'output ancestry at every position class equals the documented reduction of the input ancestry under node_map; '
         'node_map/time/flag rules; samples[k] -> k; genotype preservation; idempotence; output validity.',
    note='Bounded sizes, four option sets; trusts clang IR, engine (native replay of sampled paths), z3.',
    technique='symbolic execution of LLVM IR + SMT (z3), bounded, differential against a per-position oracle')
