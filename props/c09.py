"""C09: no API input causes out-of-bounds memory access or aborts."""


def jobs(tier):
    q = [dict(name='api-args', harness='c09_api_args.c', entry='main_c09', defines=dict(OP_LO=0, OP_HI=18), timeout=600, max_steps=3_000_000,
              hang_is_finding=True, require_tags={'end': 19}),
         dict(name='api-args-stats', harness='c09_api_args.c', entry='main_c09', defines=dict(OP_LO=19, OP_HI=24), timeout=900, max_steps=3_000_000,
              hang_is_finding=True, require_tags={'end': 6})]
    return q


BOUNDS = {
    'quick': '25 entry-point groups (the last 6: allele_frequency_spectrum, divergence_matrix, pair_coalescence_counts, genealogical_nearest_neighbours, mean_descendants, map_mutations with free sample-set members, windows, set indexes and genotypes) on a fixed valid 5-node 2-tree sequence; every identifier argument a free int32, '
             'positions integer-valued or NaN/+inf/-inf, list lengths 0-2, buffer sizes 0-16',
    'thorough': 'as quick',
}
OUTSIDE = ['argument parsing in _tskitmodule.c (CPython API)', 'arguments the Python layer computes itself (e.g. the node_bin_map of pair_coalescence_counts: only null or in-range bins)', 'allocation failure', 'larger tree sequences']
ASSUMPTIONS = ['memory monitors of engine/llsym.py (bounds, use-after-free, double free, uninitialised read, abort)',
               'counterexamples replayed under clang ASan+UBSan']

MANIFEST = {'text': 'Symbolic execution with memory-safety monitors of C entry points reached from the Python API, with every identifier argument a free 32-bit solver variable; each reported access is replayed under ASan/UBSan.', 'note': 'Fixed small base tree sequence; CPython argument parsing is outside; engine memory model (flat objects, byte-granular init tracking).', 'technique': 'symbolic execution of LLVM IR with bounds/init monitors + SMT (z3), bounded'}
