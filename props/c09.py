"""C09: no API input causes out-of-bounds memory access or aborts."""


def jobs(tier):
    q = [dict(name='api-args', harness='c09_api_args.c', entry='main_c09', defines={}, timeout=600, max_steps=3_000_000, hang_is_finding=True,
              require_tags={'end': 19})]
    return q


BOUNDS = {
    'quick': '19 entry-point groups on a fixed valid 5-node 2-tree sequence; every identifier argument a free int32, '
             'positions integer-valued or NaN/+inf/-inf, list lengths 0-2, buffer sizes 0-16',
    'thorough': 'as quick',
}
OUTSIDE = ['argument parsing in _tskitmodule.c (CPython API)', 'allocation failure', 'larger tree sequences']
ASSUMPTIONS = ['memory monitors of engine/llsym.py (bounds, use-after-free, double free, uninitialised read, abort)',
               'counterexamples replayed under clang ASan+UBSan']

MANIFEST = {'text': 'Symbolic execution with memory-safety monitors of C entry points reached from the Python API, with every identifier argument a free 32-bit solver variable; each reported access is replayed under ASan/UBSan.', 'note': 'Fixed small base tree sequence; CPython argument parsing is outside; engine memory model (flat objects, byte-granular init tracking).', 'technique': 'symbolic execution of LLVM IR with bounds/init monitors + SMT (z3), bounded'}
