"""C14: subset and union retain exactly the referenced data and invert each other."""

H = 'c14_subset.c'


def jobs(tier):
    return [
        dict(name='subset', harness=H, entry='main_c14', defines=dict(MODE=1), timeout=900, require_tags={'end': 1}),
        dict(name='split-union', harness=H, entry='main_c14', defines=dict(MODE=2), timeout=900,
             require_tags={'end': 1, 'rejoined': 1, 'individuals-permuted': 1, 'pedigree': 1}),
    ]


BOUNDS = {
    'quick': 'a 4-node 3-edge collection with 3 individuals (one with a 1-2 entry parents list incl. a later row and nulls), '
             '2 populations, 2 sites, 3 mutations with a mutation parent; node flags, edge coordinates symbolic; which '
             'individual node 0 belongs to and which nodes carry the mutations enumerated; every ordered list of 0-3 distinct '
             'nodes x all 4 option combinations; union: every assignment of the nodes to part A / part B / both that keeps '
             'each edge inside one part, node_mapping accordingly, default options',
    'thorough': 'as quick',
}
OUTSIDE = ['migrations (subset refuses them)', 'duplicate ids in the node list (C09)', 'add_populations=False, check_shared_equality=False',
           'larger collections', 'Python wrappers (sort + provenance)']
ASSUMPTIONS = ['expected output computed in the harness from the documented rule']
MANIFEST = dict(
    text='Symbolic execution of the real tsk_table_collection_subset / union / canonicalise on a collection with symbolic row '
         'data and enumerated reference structure: output tables compared row by row with the documented rule (ids remapped, '
         'data unchanged, exactly the referenced rows); split-and-rejoin compared after canonicalise.',
    note='One base collection shape; enumerated node lists; trusts clang IR, engine, z3.',
    technique='symbolic execution of LLVM IR + SMT (z3), bounded, differential against the documented rule')
