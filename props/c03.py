"""C03: decoded genotypes follow nearest-mutation inheritance and missing-data rules (C decoder by llsym; the Python
genotype_matrix assembly by CrossHair)."""
import os
import sys

HERE = os.path.dirname(os.path.dirname(os.path.abspath(__file__)))
sys.path.insert(0, os.path.join(HERE, 'engine'))

H = 'c03_genotypes.c'


def conds(tier):
    return [dict(module='c03_props', function='genotype_matrix_has_every_site', timeout=120,
                 encodes=['tskit.trees.TreeSequence.genotype_matrix'],
                 what='genotype_matrix: one row per site (mutation-free sites included, with their missing data), for the requested '
                      'samples and isolated_as_missing; 3 sites, which of them carry mutations symbolic')]


def jobs(tier):
    q = [
        dict(name='fixed-table-s2-m2', harness=H, entry='main_c03', defines=dict(NN=4, NE=4, NS=2, NM=2, FIXED_TABLE=1),
             timeout=900, require_tags={'end': 1, 'accept': 1, 'must-impute': 1}),
        dict(name='all-tables-s1-m1', harness=H, entry='main_c03', defines=dict(NN=3, NE=2, NE_MIN=1, NS=1, NM=1, TP_HI=0, SP_HI=1),
             timeout=900, require_tags={'end': 1, 'accept': 1, 'must-impute': 1}),
        dict(name='user-alleles-fixed-table', harness=H, entry='main_c03', defines=dict(NN=4, NE=4, NS=1, NM=2, FIXED_TABLE=1, USER_ALLELES=1),
             timeout=900, require_tags={'end': 1, 'accept': 1, 'allele-not-found': 1}),
    ]
    if tier == 'quick':
        return q
    return q + [
        dict(name='user-alleles-all-tables', harness=H, entry='main_c03', defines=dict(NN=3, NE=2, NE_MIN=1, NS=1, NM=2, TP_HI=0, SP_HI=1, USER_ALLELES=1),
             timeout=3000, allow_incomplete=True, require_tags={'end': 1, 'accept': 1, 'allele-not-found': 1}),
        dict(name='n3e2-s2-m2', harness=H, entry='main_c03', defines=dict(NN=3, NE=2, NE_MIN=1, NS=2, NM=2, TP_HI=0, SP_HI=1),
             timeout=3000, allow_incomplete=True, require_tags={'end': 1, 'accept': 1, 'must-impute': 1}),
        dict(name='n4e3-s2-m2', harness=H, entry='main_c03', defines=dict(NN=4, NE=3, NS=2, NM=2, TP_HI=0, SP_HI=0),
             timeout=3000, allow_incomplete=True, require_tags={'end': 1, 'accept': 1}),
        dict(name='n3e2-s2-m3', harness=H, entry='main_c03', defines=dict(NN=3, NE=2, NS=2, NM=3, TP_HI=1, SP_HI=2),
             timeout=3000, allow_incomplete=True, require_tags={'end': 1, 'accept': 1}),
    ]


BOUNDS = {
    'quick': '(a) one fixed 4-node 4-edge 5-tree sequence (internal sample, gap, empty last tree) with 2 sites at symbolic '
             'positions and 2 mutations; (b) every valid 3-node 1-2-edge tree sequence class (edge coordinates symbolic, 2 '
             'sample profiles) with 1 site and 1 mutation; sites fall in gaps, on breakpoints and above roots (site, node and '
             'derived state from {"C", ""} then {"A" (back mutation), "C"}, parents from the real compute_mutation_parents); default '
             'samples, explicit reversed all-nodes list, explicit reversed samples (traversal path); '
             'isolated_as_missing on/off; decode orders (0,1,0) and (1,0) on one Variant; restricted_copy; (c) the fixed table (one site, 2 mutations) with four user allele lists (reordered, missing a derived allele, missing the ancestral allele, with an unused allele): genotypes index the user list, a missing allele is TSK_ERR_ALLELE_NOT_FOUND',
    'thorough': 'plus 4 nodes / 3 edges and 3 mutations (time-boxed)',
}
OUTSIDE = ['haplotypes / alignments assembly in Python (numpy); of genotype_matrix only the row assembly over a stand-in Variant', 'user allele lists other than the four enumerated ones',
           'Variant.counts()/frequencies()', 'more than 3 alleles']
ASSUMPTIONS = ['mutation parents are those computed by tsk_table_collection_compute_mutation_parents (checked in C07)']
MANIFEST = dict(
    text='Bounded exhaustive symbolic execution of the real tsk_variant_init/decode/restricted_copy (sample-list and '
         'traversal paths, internal tree seeks in any order) against a naive walk-up oracle over the input rows, allele '
         'strings compared.',
    note='Bounded sizes; trusts clang IR, engine (native replay of sampled paths), z3.',
    technique='symbolic execution of LLVM IR + SMT (z3), bounded, differential against a naive oracle; CrossHair on the Python genotype_matrix assembly')


def run(pid, tier, seed, only=None):
    import mixed
    return mixed.run_mixed(pid, tier, seed, only, jobs(tier), conds(tier), BOUNDS[tier], OUTSIDE, ASSUMPTIONS,
                           ['stand-in Variant with fixed per-site genotypes; fake tree sequence (num_sites, num_samples, mutations_site)'])
