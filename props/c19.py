"""C19: IBD segments are exactly the maximal shared-path intervals of each sample pair."""

H = 'c19_ibd.c'


def jobs(tier):
    q = [
        dict(name='n3e2-pairs', harness=H, entry='main_c19', defines=dict(NN=3, NE=2, TP_HI=0, SP_HI=0, NSEL=2), timeout=900,
             require_tags={'end': 1, 'accept': 1, 'has-segments': 1}),
        dict(name='fixed-table-triples', harness=H, entry='main_c19', defines=dict(NN=4, NE=4, FIXED_TABLE=1, NSEL=3), timeout=900,
             require_tags={'end': 1, 'accept': 1, 'has-segments': 1}),
    ]
    q.append(dict(name='n3e3-pairs', harness=H, entry='main_c19', defines=dict(NN=3, NE=3, TP_HI=0, SP_HI=0, NSEL=2, FIXED_FILTERS=1),
                  timeout=900, require_tags={'end': 1, 'accept': 1, 'has-segments': 1}))
    q.append(dict(name='n3e2-all-samples-default', harness=H, entry='main_c19',
                  defines=dict(NN=3, NE=2, TP_HI=0, SP_LO=1, SP_HI=2, ALL_SAMPLES=1, SAMPLE_FLAG_EXTRA=1048576, FIXED_FILTERS=1, STORE_CHOICE=1), timeout=900,
                  require_tags={'end': 1, 'accept': 1, 'has-segments': 1}))
    q.append(dict(name='kernel-pair-key', harness='k_kernels.c', entry='main_kernel', defines=dict(KERNEL=1), timeout=600,
                  env=dict(LLSYM_Z3_TIMEOUT_MS='5000', LLSYM_CVC5_TIMEOUT_MS='120000'), require_tags={'end': 1, 'pair': 1, 'oob': 1}))
    q.append(dict(name='kernel-avl-4keys', harness='k_kernels.c', entry='main_kernel', defines=dict(KERNEL=4, NK=4), timeout=600,
                  require_tags={'end': 1, 'dup': 1, 'full': 1}))
    q.append(dict(name='kernel-avl-6distinct', harness='k_kernels.c', entry='main_kernel', defines=dict(KERNEL=4, NK=6, DISTINCT=1, NOPROBE=1),
                  timeout=600, require_tags={'end': 720, 'height3': 1, 'full': 1}))
    if tier == 'quick':
        return q
    return q + [
        dict(name='kernel-avl-5keys', harness='k_kernels.c', entry='main_kernel', defines=dict(KERNEL=4, NK=5), timeout=1800,
             require_tags={'end': 1, 'dup': 1, 'full': 1}),
        dict(name='kernel-avl-7distinct', harness='k_kernels.c', entry='main_kernel', defines=dict(KERNEL=4, NK=7, DISTINCT=1, NOPROBE=1),
             timeout=3000, allow_incomplete=True, require_tags={'end': 1, 'height3': 1, 'full': 1}),
        dict(name='n4e3-pairs', harness=H, entry='main_c19', defines=dict(NN=4, NE=3, TP_HI=0, SP_HI=0, NSEL=2), timeout=3000,
             allow_incomplete=True, require_tags={'end': 1, 'accept': 1, 'has-segments': 1}),
        dict(name='n3e2-triples', harness=H, entry='main_c19', defines=dict(NN=3, NE=2, TP_HI=1, SP_HI=1, NSEL=3), timeout=3000,
             allow_incomplete=True, require_tags={'end': 1, 'accept': 1, 'has-segments': 1}),
    ]


BOUNDS = {
    'quick': 'within=None (all samples, sample flags carrying another bit) under the three store options (pairs+segments, pairs only, totals only) on every 3-node 2-edge class; pair-key kernel: num_nodes, a, b free 32-bit values (every table size below 2^31); AVL kernel: 4 inserts of free 64-bit keys (duplicates included) plus a free probe key, and 6 inserts of distinct free keys (every insertion order, all four rotation cases); every valid 3-node 2-edge tree sequence class (edge coordinates symbolic; adjacent edges with equal parent/child, '
             'gaps, unary nodes arise) x every ordered pair of distinct nodes (samples or not, ancestor/descendant pairs '
             'included), within and between, min_span in {0,1,2}, max_time in {0.5,1.5,2.5,inf}; 3-node 3-edge classes (unsquashed adjacent edges plus a sibling) without filters; one fixed 4-node 4-edge 5-tree '
             'sequence x every ordered triple of nodes; store_pairs+store_segments',
    'thorough': 'plus AVL kernel with 5 free keys and 7 distinct keys (time-boxed), 4-node 3-edge classes and triples on 3-node classes (time-boxed)',
}
OUTSIDE = ['max_time exactly equal to a node time (documentation says "more recent than", the code keeps equality)',
           'store options other than pairs+segments', 'Python result classes']
ASSUMPTIONS = ['marginal trees come from the real tree iterator, itself tied to the tables by C01']
MANIFEST = dict(
    text='Bounded exhaustive symbolic execution of the real IBD finder and pair store: for every pair the stored segments '
         'are exactly the maximal runs of trees with identical (MRCA, edge chains), filtered by min_span and max_time, and the '
         'totals equal the aggregates.',
    note='Bounded sizes; oracle built on the real tree iterator (C01); trusts clang IR, engine, z3.',
    technique='symbolic execution of LLVM IR + SMT (z3), bounded, differential against a per-tree oracle')
