"""C13: tables behave like a list of rows (C-level row/column operations by llsym; the Python row assignment / append
facade by CrossHair)."""
import os
import sys

HERE = os.path.dirname(os.path.dirname(os.path.abspath(__file__)))
sys.path.insert(0, os.path.join(HERE, 'engine'))

H = 'c13_tables.c'


def conds(tier):
    enc = ['tskit.tables.BaseTable.__setitem__', 'tskit.tables.BaseTable.append']
    return [
        dict(module='c13_props', function='setitem_index_and_columns', timeout=120, encodes=enc,
             what='table[index] = row: list indexing for 1-5 rows and index in [-12,12]; all columns from the row, metadata decoded by the source and re-encoded by the destination schema, read before or not'),
        dict(module='c13_props', function='append_passes_every_column', timeout=60,
             what='append(row) hands every column (decoded metadata) to add_row and returns the id'),
    ]


def J(name, defines, **kw):
    d = dict(name=name, harness=H, entry='main_c13', defines=defines, timeout=900, require_tags={'end': 1}, validate=6)
    d.update(kw)
    return d


def jobs(tier):
    q = [
        J('node-table-k2', dict(KIND=1, KOPS=2)),
        J('individual-table-k1', dict(KIND=2, KOPS=1)),
        J('individual-table-selfref-k2', dict(KIND=2, KOPS=2, FIRST_OP=7), require_tags={'end': 1, 'dangling': 1}),
        J('mutation-table-k1', dict(KIND=3, KOPS=1)),
        J('mutation-table-selfref-k2', dict(KIND=3, KOPS=2, FIRST_OP=7), require_tags={'end': 1, 'dangling': 1}),
        J('edge-table-k1', dict(KIND=4, KOPS=1)),
        J('site-table-k1', dict(KIND=5, KOPS=1)),
        J('migration-table-k1', dict(KIND=6, KOPS=1)),
        J('population-table-k1', dict(KIND=7, KOPS=1)),
        J('provenance-table-k1', dict(KIND=8, KOPS=1)),
        dict(name='kernel-capacity', harness='k_kernels.c', entry='main_kernel', defines=dict(KERNEL=2), timeout=600,
             env=dict(LLSYM_Z3_TIMEOUT_MS='5000', LLSYM_CVC5_TIMEOUT_MS='120000'), require_tags={'end': 1, 'grow': 1, 'overflow': 1}),
    ]
    if tier == 'quick':
        return q
    return q + [
        J('node-table-k3', dict(KIND=1, KOPS=3), timeout=3000, allow_incomplete=True),
        J('individual-table-k2', dict(KIND=2, KOPS=2), timeout=3000, allow_incomplete=True, require_tags={'end': 1, 'dangling': 1}),
        J('mutation-table-k2', dict(KIND=3, KOPS=2), timeout=3000, allow_incomplete=True, require_tags={'end': 1, 'dangling': 1}),
        J('edge-table-k2', dict(KIND=4, KOPS=2), timeout=3000, allow_incomplete=True),
        J('population-table-k2', dict(KIND=7, KOPS=2), timeout=3000, allow_incomplete=True),
    ]


BOUNDS = {
    'quick': 'capacity kernel: calculate_max_rows / calculate_max_length from every 64-bit state with num <= max <= limit and any increment / additional size; node table: every sequence of 2 operations from {add_row, update_row(j), truncate(n), keep_rows(mask), '
             'extend(copy, rows | NULL), clear, copy, append_columns(2 rows, metadata given or omitted)} on a 2-row table; individual and mutation tables: '
             'every single operation, and every operation after pointing the parent reference of one row at another row (keep_rows with self-references); all fixed-width '
             'fields free 32-bit or integer-valued doubles, ragged lengths 0-2 with symbolic bytes, max_rows_increment '
             'default or 1 (reallocation on every insertion); contents compared with a plain C array of rows after every step; edge, site, migration, population and provenance tables: every single operation from the same set on a 2-row table',
    'thorough': 'sequences of 3 (node) and 2 (individual, mutation, edge, population) operations (time-boxed)',
}
OUTSIDE = ['the Python facade other than row assignment / append: __getitem__ with slices/masks/id arrays, packset_*, column attribute assignment, '
           'drop_metadata (numpy)', 'immutability of TreeSequence objects and WRITEABLE flags of exported arrays (numpy / CPython)',
           'sequences of two or more operations on edge, site, migration, population and provenance tables (quick tier: single operations)',
           'set_columns; append_columns on tables other than the node table']
ASSUMPTIONS = ['a failed extend() behaves like list.extend() from a failing generator (rows before the bad index stay appended)']
MANIFEST = dict(
    text='Bounded exhaustive symbolic execution of the real table row operations against an array-of-rows model with '
         'symbolic row contents: get_row of every row, ragged offsets and totals after every step; keep_rows id_map, '
         'self-reference remapping and rejection of dangling references with the table left unchanged.',
    note='Histories bounded; three of the eight table kinds; Python-level facade and tree-sequence immutability are outside.',
    technique='symbolic execution of LLVM IR + SMT (z3), bounded histories, differential against a list model; CrossHair on the Python row-assignment facade')


def run(pid, tier, seed, only=None):
    import mixed
    return mixed.run_mixed(pid, tier, seed, only, jobs(tier), conds(tier), BOUNDS[tier], OUTSIDE, ASSUMPTIONS,
                           ['fake node table (column_names, __len__, recorder ll_table, tagging metadata schema)'])
