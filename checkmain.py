"""Entry point: ./check <ID> [--tier quick|thorough]   |   ./check --replay <file>"""
import argparse
import importlib
import json
import os
import sys

HERE = os.path.dirname(os.path.abspath(__file__))
sys.path.insert(0, os.path.join(HERE, 'engine'))
sys.path.insert(0, HERE)


def main():
    ap = argparse.ArgumentParser()
    ap.add_argument('pid', nargs='?')
    ap.add_argument('--tier', default=os.environ.get('VERIF_TIER', 'quick'))
    ap.add_argument('--replay')
    ap.add_argument('--only', help='run only the jobs whose name contains this substring (debugging; exit 3)')
    a = ap.parse_args()
    if a.replay:
        from engine import replay
        return replay.main(a.replay)
    pid = a.pid.upper()
    mod = importlib.import_module('props.' + pid.lower())
    seed = int(os.environ.get('VERIF_SEED', '0') or 0)
    if hasattr(mod, 'run'):
        return mod.run(pid, a.tier, seed, a.only)
    from engine import driver
    chk = driver.Check(pid, a.tier)
    try:
        jobs = mod.jobs(a.tier)
        if a.only:
            jobs = [j for j in jobs if a.only in j['name']]
        chk.run_c_jobs(jobs)
        cov = chk.c_coverage(mod.BOUNDS[a.tier], mod.OUTSIDE)
        rc = chk.finish('model_checking', cov, mod.ASSUMPTIONS, seed)
        if a.only and rc == 0:
            print('partial run (--only): not a verdict')
            return 3
        print('%s %s: exit %d, %d paths, %d violations, %d known, %d harness errors' % (
            pid, a.tier, rc, cov['states'], len(chk.violations), len(chk.known), len(chk.errors)))
        return rc
    finally:
        chk.cleanup()


if __name__ == '__main__':
    sys.exit(main())
