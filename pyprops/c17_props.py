"""C17 contracts for CrossHair: the real parse_nodes / parse_edges / parse_individuals / parse_mutations read text whose
integer fields, column order and optional-column set are symbolic; rows are recorded by a stand-in table."""
import io
from typing import List

import tskit
from tskit import trees as trees_mod


class Recorder:
    """Stands in for a table: records add_row keyword arguments."""

    def __init__(self):
        self.rows = []

    def add_row(self, *args, **kwargs):
        self.rows.append((args, kwargs))
        return len(self.rows) - 1


PERMS3 = [(0, 1, 2), (0, 2, 1), (1, 0, 2), (1, 2, 0), (2, 0, 1), (2, 1, 0)]


def _assemble(cols, order, extra_at):
    """cols: list of (name, [cell per row]); order: permutation of range(len(cols)); an unknown column 'zz' is inserted
    at index extra_at (or not at all if extra_at < 0)."""
    cols = [cols[i] for i in order]
    if extra_at >= 0:
        cols.insert(min(extra_at, len(cols)), ("zz", ["junk"] * len(cols[0][1])))
    lines = ["\t".join(c[0] for c in cols)]
    for r in range(len(cols[0][1])):
        lines.append("\t".join(c[1][r] for c in cols))
    return "\n".join(lines) + "\n"


def _nodes(order, has_pop, has_ind, has_md, extra_at, s0, p0, i0):
    cols = [("is_sample", [str(s0), "1"]), ("time", ["0.5", "2.0"])]
    if has_pop:
        cols.append(("population", [str(p0), "3"]))
    if has_ind:
        cols.append(("individual", [str(i0), "-1"]))
    if has_md:
        cols.append(("metadata", ["YWJj", ""]))  # base64 of b"abc", and an empty cell
    text = _assemble(cols, order, extra_at)
    rec = Recorder()
    trees_mod.parse_nodes(io.StringIO(text), strict=True, table=rec)
    if len(rec.rows) != 2:
        return False
    r0, r1 = rec.rows[0][1], rec.rows[1][1]
    ok = r0["flags"] == (1 if s0 else 0) and r1["flags"] == 1 and r0["time"] == 0.5 and r1["time"] == 2.0
    ok = ok and r0["population"] == (p0 if has_pop else -1) and r1["population"] == (3 if has_pop else -1)
    ok = ok and r0["individual"] == (i0 if has_ind else -1) and r1["individual"] == -1
    ok = ok and r0["metadata"] == (b"abc" if has_md else b"") and r1["metadata"] == b""
    return ok


def nodes_column_orders(perm: int, rot: int, s0: int, p0: int, i0: int) -> bool:
    """
    parse_nodes accepts its five columns in any order (a permutation of the first three times a rotation).
    pre: 0 <= perm <= 5
    pre: 0 <= rot <= 4
    pre: 0 <= s0 <= 1 and -1 <= p0 <= 11 and -1 <= i0 <= 11
    post: _
    """
    p = PERMS3[perm]
    order = [p[0], p[1], p[2], 3, 4]
    order = order[rot:] + order[:rot]
    return _nodes(order, True, True, True, -1, s0, p0, i0)


def nodes_optional_columns(has_pop: bool, has_ind: bool, has_md: bool, extra_at: int, p0: int, i0: int) -> bool:
    """
    Omitted optional columns take their documented defaults; an unknown column anywhere is ignored.
    pre: -1 <= extra_at <= 5
    pre: -1 <= p0 <= 11 and -1 <= i0 <= 11
    post: _
    """
    n = 2 + int(has_pop) + int(has_ind) + int(has_md)
    return _nodes(list(range(n)), has_pop, has_ind, has_md, extra_at, 1, p0, i0)


def edges_any_column_order(perm: int, extra_at: int, p: int, c: int) -> bool:
    """
    pre: 0 <= perm <= 5
    pre: -1 <= extra_at <= 4
    pre: 0 <= p <= 110 and 0 <= c <= 11
    post: _
    """
    cols = [("left", ["0.0"]), ("right", ["2.5"]), ("parent", [str(p)]), ("child", [str(c)])]
    order = [PERMS3[perm][0], PERMS3[perm][1], PERMS3[perm][2], 3]
    if perm % 2:
        order = [3] + order[:3]
    text = _assemble(cols, order, extra_at)
    rec = Recorder()
    trees_mod.parse_edges(io.StringIO(text), strict=True, table=rec)
    if len(rec.rows) != 1:
        return False
    r = rec.rows[0][1]
    return r["left"] == 0.0 and r["right"] == 2.5 and r["parent"] == p and r["child"] == c


def individuals_ragged_cells(f0: int, par0: int, has_loc: bool, has_par: bool, pattern: int) -> bool:
    """
    parse_individuals: location / parents are comma separated lists, an empty cell is an empty list for THAT row only,
    omitted columns default to empty.
    pre: 0 <= f0 <= 11 and -1 <= par0 <= 11
    pre: 0 <= pattern <= 3
    post: _
    """
    # pattern selects which of the two rows has empty location / parents cells
    loc = ["0.5,1.5", ""] if pattern % 2 == 0 else ["", "2.5"]
    par = [str(par0) + ",-1", ""] if pattern // 2 == 0 else ["", str(par0)]
    cols = [("flags", [str(f0), "7"])]
    if has_loc:
        cols.append(("location", loc))
    if has_par:
        cols.append(("parents", par))
    cols.append(("metadata", ["YWJj", "YQ=="]))
    text = _assemble(cols, list(range(len(cols))), -1)
    rec = Recorder()
    trees_mod.parse_individuals(io.StringIO(text), strict=True, table=rec)
    if len(rec.rows) != 2:
        return False
    r0, r1 = rec.rows[0][1], rec.rows[1][1]
    want_loc = [tuple(float(x) for x in c.split(",")) if c else () for c in loc] if has_loc else [(), ()]
    want_par = [tuple(int(x) for x in c.split(",")) if c else () for c in par] if has_par else [(), ()]
    return (r0["flags"] == f0 and r1["flags"] == 7 and tuple(r0["location"]) == want_loc[0] and tuple(r1["location"]) == want_loc[1]
            and tuple(r0["parents"]) == want_par[0] and tuple(r1["parents"]) == want_par[1]
            and r0["metadata"] == b"abc" and r1["metadata"] == b"a")


def mutations_times_and_parents(site0: int, node0: int, par1: int, has_time: bool, has_parent: bool, unknown0: bool) -> bool:
    """
    parse_mutations: 'unknown' (or an omitted time column) gives UNKNOWN_TIME, an omitted parent column gives -1,
    multi-character and empty derived states survive.
    pre: 0 <= site0 <= 11 and 0 <= node0 <= 11 and -1 <= par1 <= 11
    post: _
    """
    cols = [("site", [str(site0), "5"]), ("node", [str(node0), "2"]), ("derived_state", ["ACGT", ""])]
    if has_time:
        cols.append(("time", ["unknown" if unknown0 else "0.25", "1.5"]))
    if has_parent:
        cols.append(("parent", ["-1", str(par1)]))
    text = _assemble(cols, list(range(len(cols))), -1)
    rec = Recorder()
    trees_mod.parse_mutations(io.StringIO(text), strict=True, table=rec)
    if len(rec.rows) != 2:
        return False
    r0, r1 = rec.rows[0][1], rec.rows[1][1]
    t0_unknown = (not has_time) or unknown0
    ok = r0["site"] == site0 and r1["site"] == 5 and r0["node"] == node0 and r1["node"] == 2
    ok = ok and r0["derived_state"] == "ACGT" and r1["derived_state"] == ""
    ok = ok and tskit.is_unknown_time(r0["time"]) == t0_unknown and (t0_unknown or r0["time"] == 0.25)
    ok = ok and (tskit.is_unknown_time(r1["time"]) if not has_time else r1["time"] == 1.5)
    ok = ok and r0["parent"] == -1 and r1["parent"] == (par1 if has_parent else -1)
    return ok


# ---- dump_text -> parse_* round trip on a fake tree sequence -------------------------------------------------------
from tskit import text_formats as _tf  # noqa: E402
from tskit import util as _util  # noqa: E402


def _tf_print(*args, sep=" ", end="\n", file=None):
    file.write(sep.join(str(a) for a in args) + end)


_tf.print = _tf_print  # CrossHair silences the builtin print


class _Row:
    def __init__(self, **kw):
        self.__dict__.update(kw)

    def is_sample(self):
        return self.flags & 1


class _RTS:
    """Row iterators plus the column views a tree sequence also offers (so that code reading whole columns still runs)."""

    def __init__(self, nodes=(), sites=()):
        import numpy as np
        self._nodes = nodes
        self._sites = sites
        muts = [m for s in sites for m in s.mutations]
        self.num_nodes, self.num_sites, self.num_mutations = len(nodes), len(sites), len(muts)
        self.nodes_time = np.array([n.time for n in nodes], dtype=float)
        self.nodes_flags = np.array([n.flags for n in nodes], dtype=np.uint32)
        self.sites_position = np.array([x.position for x in sites], dtype=float)
        self.mutations_time = np.array([m.time for m in muts], dtype=float)
        self.mutations_site = np.array([m.site for m in muts], dtype=np.int32)
        self.mutations_node = np.array([int(m.node) for m in muts], dtype=np.int32)

    def mutations(self):
        return iter(m for s in self._sites for m in s.mutations)

    def nodes(self):
        return iter(self._nodes)

    def sites(self):
        return iter(self._sites)


_TIMES = (0.0, 1.5, 2.25)
_MDS = (b"", b"xy", b"\x00\xff")


def _dump(ts, **which):
    args = dict(nodes=None, edges=None, sites=None, mutations=None, individuals=None, populations=None, migrations=None,
                provenances=None, precision=6, encoding="utf8", base64_metadata=True)
    args.update(which)
    _tf.dump_text(ts, **args)


def dump_load_nodes(s0: bool, p0: int, i0: int, t0: int) -> bool:
    """
    dump_text(nodes) followed by parse_nodes gives back every node row: sample flag, time, population, individual,
    metadata (base64).
    pre: -1 <= p0 <= 10 and 9 <= i0 <= 10 and 0 <= t0 <= 1
    post: _
    """
    rows = [_Row(id=0, flags=1 if s0 else 0, time=_TIMES[t0], population=p0, individual=i0, metadata=b"xy"),
            _Row(id=1, flags=0, time=2.25, population=-1, individual=3, metadata=b"")]
    out = io.StringIO()
    _dump(_RTS(nodes=rows), nodes=out)
    rec = Recorder()
    trees_mod.parse_nodes(io.StringIO(out.getvalue()), strict=True, table=rec)
    if len(rec.rows) != 2:
        return False
    for r, (a, kw) in zip(rows, rec.rows):
        if not (kw["flags"] == r.flags and kw["time"] == r.time and kw["population"] == r.population
                and kw["individual"] == r.individual and kw["metadata"] == r.metadata):
            return False
    return True


def dump_load_sites_mutations(n0: int, u0: bool, u1: bool, u2: bool, par1: int) -> bool:
    """
    dump_text(sites, mutations) followed by parse_sites / parse_mutations gives back every row: the mutation's own site,
    node, time (a known time or "unknown" - per mutation, not per site), derived state, parent and metadata.
    pre: 0 <= n0 <= 11 and -1 <= par1 <= 0
    post: _
    """
    unk = tskit.UNKNOWN_TIME
    muts = [_Row(id=0, site=0, node=n0, time=unk if u0 else 1.5, derived_state="T", parent=-1, metadata=b"\x00\xff"),
            _Row(id=1, site=0, node=3, time=unk if u1 else 0.0, derived_state="", parent=par1, metadata=b""),
            _Row(id=2, site=1, node=7, time=unk if u2 else 2.25, derived_state="C", parent=-1, metadata=b"xy")]
    sites = [_Row(id=0, position=1.0, ancestral_state="A", metadata=b"", mutations=muts[:2]),
             _Row(id=1, position=2.5, ancestral_state="AC", metadata=b"xy", mutations=muts[2:])]
    ts = _RTS(sites=sites)
    out_s, out_m = io.StringIO(), io.StringIO()
    _dump(ts, sites=out_s, mutations=out_m)
    rs, rm = Recorder(), Recorder()
    trees_mod.parse_sites(io.StringIO(out_s.getvalue()), strict=True, table=rs)
    trees_mod.parse_mutations(io.StringIO(out_m.getvalue()), strict=True, table=rm)
    if len(rs.rows) != 2 or len(rm.rows) != 3:
        return False
    for s, (a, kw) in zip(sites, rs.rows):
        if not (kw["position"] == s.position and kw["ancestral_state"] == s.ancestral_state and kw["metadata"] == s.metadata):
            return False
    for x, (a, kw) in zip(muts, rm.rows):
        same_time = _util.is_unknown_time(kw["time"]) if _util.is_unknown_time(x.time) else kw["time"] == x.time
        if not (kw["site"] == x.site and kw["node"] == x.node and same_time and kw["derived_state"] == x.derived_state
                and kw["parent"] == x.parent and kw["metadata"] == x.metadata):
            return False
    return True
