"""C08 contract (Python half) for CrossHair: TreeSequence.sample_count_stat turns sample sets into the indicator weight
matrix handed to general_stat (the C half decides general_stat).  Sample ids and set membership are symbolic; the list
comprehension that builds the matrix is executed symbolically up to the numpy boundary."""
import tskit


class _Node:
    def __init__(self, s):
        self.s = s

    def is_sample(self):
        return self.s


class FakeTS:
    sample_count_stat = tskit.TreeSequence.sample_count_stat

    def __init__(self, samples, n):
        self._samples = samples
        self.num_nodes = n
        self.num_samples = len(samples)
        self.calls = []

    def samples(self):
        return list(self._samples)

    def node(self, u):
        return _Node(u in self._samples)

    def general_stat(self, W, f, output_dim, **kw):
        self.calls.append(([[float(x) for x in row] for row in W], kw))
        return "r"


def indicator_weights(alt_ids: bool, m0: bool, m1: bool, m2: bool, k0: bool, k1: bool, k2: bool, polarised: bool) -> bool:
    """
    W[i][k] is 1 exactly when the i-th sample (in samples() order, whatever its node id) belongs to sample set k, and
    the options are passed through.  Sample ids are not 0..n-1; which samples belong to which set is symbolic.
    pre: (m0 or m1 or m2) and (k0 or k1 or k2)
    post: _
    """
    samples = [0, 2, 5] if alt_ids else [1, 3, 4]
    sets = [[u for u, m in zip(samples, (m0, m1, m2)) if m], [u for u, m in zip(samples, (k0, k1, k2)) if m]]
    ts = FakeTS(samples, 6)
    r = ts.sample_count_stat(sets, None, 1, polarised=polarised, mode="branch")
    W, kw = ts.calls[0]
    return (r == "r" and kw.get("polarised") is polarised and kw.get("mode") == "branch"
            and all(W[i][k] == (1.0 if samples[i] in sets[k] else 0.0) for i in range(3) for k in range(2)))


def non_samples_and_duplicates_rejected(s0: int, s1: int, u: int, v: int) -> bool:
    """
    A sample set with a repeated element, an empty set or a node that is not a sample raises ValueError.
    pre: 0 <= s0 < s1 <= 3 and 0 <= u <= 3 and 0 <= v <= 3
    post: _
    """
    ts = FakeTS([s0, s1], 4)
    bad = u == v or u not in (s0, s1) or v not in (s0, s1)
    try:
        ts.sample_count_stat([[u, v]], None, 1)
    except ValueError:
        return bad
    return not bad


# ---- Tree.rf_distance (pure Python over the tree's nodes / children / samples) -----------------------------------
# rooted shapes on leaves 0,1,2 (+ internal 3, root 4); parent maps
_SHAPES = [
    {0: 3, 1: 3, 3: 4, 2: 4},   # ((0,1),2)
    {0: 3, 2: 3, 3: 4, 1: 4},   # ((0,2),1)
    {1: 3, 2: 3, 3: 4, 0: 4},   # ((1,2),0)
    {0: 4, 1: 4, 2: 4},         # star
]


class FakeTree:
    rf_distance = tskit.Tree.rf_distance
    _get_sample_sets = tskit.Tree._get_sample_sets

    def __init__(self, parent, sample_nodes, extra_root=False):
        self.parent_map = dict(parent)
        self.sample_nodes = list(sample_nodes)
        roots = {v for v in self.parent_map.values() if v not in self.parent_map}
        self.num_roots = len(roots) + (1 if extra_root else 0)
        self.root = min(roots)

    def children(self, u):
        return sorted(c for c, p in self.parent_map.items() if p == u)

    def is_sample(self, u):
        return u in self.sample_nodes

    def samples(self, u=None):
        return iter(self.sample_nodes)

    def nodes(self, root=None, order="preorder"):
        out = []

        def visit(u):
            for c in self.children(u):
                visit(c)
            out.append(u)
        visit(self.root)
        if order != "postorder":
            out.reverse()
        return iter(out)


def _clades(parent, sample_nodes):
    nodes = set(parent) | set(parent.values())
    out = set()
    for u in nodes:
        below = set()
        for s in sample_nodes:
            v = s
            while v is not None:
                if v == u:
                    below.add(s)
                    break
                v = parent.get(v)
        out.add(frozenset(below))
    return out


def rf_distance_definition(sa: int, sb: int, other_samples: int, two_roots: bool) -> bool:
    """
    Tree.rf_distance: the number of sample bipartitions (clades) present in one rooted tree but not the other; ValueError
    if either tree has several roots or the trees have different sample nodes (both documented).
    pre: 0 <= sa <= 3 and 0 <= sb <= 3 and 0 <= other_samples <= 2
    post: _
    """
    samples_a = [0, 1, 2]
    samples_b = ([0, 1, 2], [0, 1], [0, 1, 3])[other_samples]
    a = FakeTree(_SHAPES[sa], samples_a)
    b = FakeTree(_SHAPES[sb], samples_b, extra_root=two_roots)
    try:
        d = a.rf_distance(b)
    except ValueError:
        return two_roots or set(samples_a) != set(samples_b)
    if two_roots or set(samples_a) != set(samples_b):
        return False
    return d == len(_clades(_SHAPES[sa], samples_a) ^ _clades(_SHAPES[sb], samples_b)) and d == b.rf_distance(a)
