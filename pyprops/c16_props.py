"""C16 contracts for CrossHair: the real tskit.vcf.VcfWriter is executed symbolically on a fake tree
sequence; numpy is replaced by nplite, print by a pure-Python writer (CrossHair silences builtin print)."""
import os
from typing import List

import nplite
import tskit
from tskit import vcf

if not os.environ.get('VERIF_REPLAY_REAL'):
    vcf.np = nplite
    vcf.memoryview = lambda a: a  # nplite.A has tobytes()


def _print(*args, sep=" ", end="\n", file=None):
    file.write(sep.join(str(a) for a in args) + end)


vcf.print = _print


class _Site:
    def __init__(self, i):
        self.id = i


class _Var:
    """Like tskit.Variant: with missing data the alleles tuple carries a trailing None that num_alleles does not count."""

    def __init__(self, idx, alleles, genos):
        self.site = _Site(idx)
        self.index = idx
        self.has_missing_data = -1 in genos
        self.alleles = tuple(alleles) + ((None,) if self.has_missing_data else ())
        self.num_alleles = len(alleles)
        self.genotypes = nplite.A(genos, 'int8')


class _Sites:
    def __init__(self, pos):
        self.position = nplite.A(pos, float)


class _Tables:
    def __init__(self, pos):
        self.sites = _Sites(pos)


class _Ind:
    def __init__(self, i, nodes):
        self.id = i
        self.nodes = nodes


class _Node:
    def __init__(self, s):
        self._s = s

    def is_sample(self):
        return self._s


class FakeTS:
    """Exactly the attributes VcfWriter touches."""

    def __init__(self, pos, genos, L, node_ind=None, inds=None, alleles=("A", "T")):
        self.tables = _Tables(pos)
        self.num_sites = len(pos)
        self.sequence_length = L
        self._g = genos  # per site: list of genotypes per sample node id
        self.num_samples = len(genos[0]) if genos else 2
        self.sample_size = self.num_samples
        self._inds = inds or []
        self.num_individuals = len(self._inds)
        self.nodes_individual = nplite.A(node_ind if node_ind is not None else [-1] * self.num_samples, 'int32')
        self._alleles = alleles

    def samples(self):
        return nplite.A(list(range(self.num_samples)), 'int32')

    def individual(self, i):
        return _Ind(i, self._inds[i])

    def node(self, u):
        return _Node(True)

    def variants(self, samples=None, isolated_as_missing=None):
        order = list(range(self.num_samples)) if samples is None else list(samples)
        for j, g in enumerate(self._g):
            yield _Var(j, self._alleles, [g[u] for u in order])


class _W:
    def __init__(self):
        self.parts = []

    def write(self, s):
        self.parts.append(s)


def _run(ts, mask, apz, ploidy=None, individuals=None, sample_mask=None, transform=None):
    w = vcf.VcfWriter(ts, ploidy=ploidy, contig_id="1", individuals=individuals, individual_names=None,
                      position_transform=transform, site_mask=mask, sample_mask=sample_mask,
                      isolated_as_missing=True, allow_position_zero=apz)
    out = _W()
    w.write(out)
    return "".join(out.parts)


def _mask_form(form, bits):
    if form == 0:
        return [bool(b) for b in bits]
    if form == 1:
        return tuple(bool(b) for b in bits)
    if form == 2:
        return [1 if b else 0 for b in bits]
    if form == 3:
        return nplite.A([bool(b) for b in bits], bool)
    if form == 4:
        return nplite.A([1 if b else 0 for b in bits], int)
    return None


def _gt(g):
    return "." if g == -1 else str(g)


def _check_text(txt, pos, genos, masked, groups, names, alt="T"):
    lines = txt.split("\n")
    data = [l for l in lines if l and not l.startswith("#")]
    head = [l for l in lines if l.startswith("#CHROM")]
    if len(head) != 1 or head[0].split("\t")[9:] != names:
        return False
    expect_sites = [j for j in range(len(pos)) if not masked[j]]
    if len(data) != len(expect_sites):
        return False
    for line, j in zip(data, expect_sites):
        f = line.split("\t")
        if f[0] != "1" or f[1] != str(pos[j]) or f[2] != str(j) or f[3] != "A" or f[4] != alt:
            return False
        if f[5:9] != [".", "PASS", ".", "GT"]:
            return False
        gts = f[9:]
        if len(gts) != len(groups):
            return False
        for col, grp in zip(gts, groups):
            if col != "|".join(_gt(genos[j][u]) for u in grp):
                return False
    return True


def _site_mask(form, p0, p1, g00, g01, m0, m1, apz, ploidy):
    genos = [[g00, g01], [1, -1]]
    masked = [m0, m1] if form != 5 else [False, False]
    ts = FakeTS([p0, p1], genos, 10)
    try:
        txt = _run(ts, _mask_form(form, [m0, m1]), apz, ploidy=ploidy)
    except ValueError:
        # legitimate only when an unmasked site sits at transformed position 0 and zero is not allowed
        return (not apz) and p0 == 0 and not masked[0]
    if (not apz) and p0 == 0 and not masked[0]:
        return False
    groups = [[0], [1]] if ploidy == 1 else [[0, 1]]
    names = ["tsk_%d" % k for k in range(len(groups))]
    return _check_text(txt, [p0, p1], genos, masked, groups, names)


def site_mask_bool_list(p0: int, p1: int, g00: int, g01: int, m0: bool, m1: bool, apz: bool, ploidy: int) -> bool:
    """
    One line per unmasked site with POS/ID/REF/ALT/GT as stated; the position-zero error depends on unmasked sites only.
    pre: 0 <= p0 < p1 < 10
    pre: -1 <= g00 <= 1 and -1 <= g01 <= 1
    pre: 1 <= ploidy <= 2
    post: _
    """
    return _site_mask(0, p0, p1, g00, g01, m0, m1, apz, ploidy)


def site_mask_tuple(p0: int, p1: int, g00: int, g01: int, m0: bool, m1: bool, apz: bool) -> bool:
    """
    pre: 0 <= p0 < p1 < 10
    pre: -1 <= g00 <= 1 and -1 <= g01 <= 1
    post: _
    """
    return _site_mask(1, p0, p1, g00, g01, m0, m1, apz, 1)


def site_mask_int_list(p0: int, p1: int, g00: int, g01: int, m0: bool, m1: bool, apz: bool) -> bool:
    """
    pre: 0 <= p0 < p1 < 10
    pre: -1 <= g00 <= 1 and -1 <= g01 <= 1
    post: _
    """
    return _site_mask(2, p0, p1, g00, g01, m0, m1, apz, 1)


def site_mask_bool_array(p0: int, p1: int, g00: int, g01: int, m0: bool, m1: bool, apz: bool) -> bool:
    """
    pre: 0 <= p0 < p1 < 10
    pre: -1 <= g00 <= 1 and -1 <= g01 <= 1
    post: _
    """
    return _site_mask(3, p0, p1, g00, g01, m0, m1, apz, 1)


def site_mask_int_array(p0: int, p1: int, g00: int, g01: int, m0: bool, m1: bool, apz: bool) -> bool:
    """
    pre: 0 <= p0 < p1 < 10
    pre: -1 <= g00 <= 1 and -1 <= g01 <= 1
    post: _
    """
    return _site_mask(4, p0, p1, g00, g01, m0, m1, apz, 1)


def site_mask_none(p0: int, p1: int, g00: int, g01: int, apz: bool, ploidy: int) -> bool:
    """
    pre: 0 <= p0 < p1 < 10
    pre: -1 <= g00 <= 1 and -1 <= g01 <= 1
    pre: 1 <= ploidy <= 2
    post: _
    """
    return _site_mask(5, p0, p1, g00, g01, False, False, apz, ploidy)


def masked_site_is_irrelevant(p0: int, p0b: int, p1: int, g0: int, g0b: int, g1: int, form: int, apz: bool) -> bool:
    """
    Changing anything about a masked site changes neither the output nor whether an error is raised.
    pre: 0 <= p0 < p1 < 10 and 0 <= p0b < p1
    pre: -1 <= g0 <= 1 and -1 <= g0b <= 1 and -1 <= g1 <= 1
    pre: 0 <= form <= 4
    post: _
    """
    def attempt(pa, ga):
        ts = FakeTS([pa, p1], [[ga, 0], [g1, 1]], 10)
        try:
            txt = _run(ts, _mask_form(form, [True, False]), apz)
        except ValueError:
            return "ValueError"
        # the ##contig line does not depend on the first site here (p1 is last)
        return txt
    return attempt(p0, g0) == attempt(p0b, g0b)


def sample_mask_forms(g0: int, g1: int, g2: int, s0: bool, s1: bool, s2: bool, form: int) -> bool:
    """
    Masked calls are written as '.', whatever form the sample mask has.
    pre: -1 <= g0 <= 1 and -1 <= g1 <= 1 and -1 <= g2 <= 1
    pre: 0 <= form <= 5
    post: _
    """
    genos = [[g0, g1, g2]]
    ts = FakeTS([3], genos, 10)
    bits = [s0, s1, s2]
    if form == 5:
        fixed = nplite.A(bits, bool)
        sm = lambda variant: fixed  # noqa: E731
    else:
        sm = _mask_form(form, bits)
    txt = _run(ts, None, True, sample_mask=sm)
    shown = [[-1 if b else g for g, b in zip(genos[0], bits)]]
    return _check_text(txt, [3], shown, [False], [[0], [1], [2]], ["tsk_0", "tsk_1", "tsk_2"])


LAYOUTS = [
    # (node -> individual, individual -> nodes)
    ([0, 0, 1], [[0, 1], [2]]),       # mixed ploidy 2, 1
    ([1, 0, 1], [[1], [0, 2]]),       # nodes of an individual not adjacent
    ([0, 1, 2], [[0], [1], [2]]),     # haploid individuals
]


def _regroup(layout, which, g0, g1, g2):
    node_ind, inds = LAYOUTS[layout]
    genos = [[g0, g1, g2], [0, 1, -1]]
    ts = FakeTS([2, 5], genos, 10, node_ind=node_ind, inds=inds)
    n = len(inds)
    if which == 0:
        arg, order = None, list(range(n))
    elif which == 1:
        arg, order = list(range(n)), list(range(n))
    elif which == 2:
        arg, order = list(reversed(range(n))), list(reversed(range(n)))
    else:
        arg, order = [n - 1], [n - 1]
    txt = _run(ts, None, True, individuals=arg)
    groups = [inds[i] for i in order]
    names = ["tsk_%d" % k for k in range(len(groups))]
    return _check_text(txt, [2, 5], genos, [False, False], groups, names)


def individuals_regrouping_mixed_ploidy(which: int, g0: int, g1: int, g2: int) -> bool:
    """
    GT fields are regrouped by individual (or by the given individuals argument, in its order).
    pre: 0 <= which <= 3
    pre: -1 <= g0 <= 1 and -1 <= g1 <= 1 and -1 <= g2 <= 1
    post: _
    """
    return _regroup(0, which, g0, g1, g2)


def individuals_regrouping_nonadjacent(which: int, g0: int, g1: int, g2: int) -> bool:
    """
    pre: 0 <= which <= 3
    pre: -1 <= g0 <= 1 and -1 <= g1 <= 1 and -1 <= g2 <= 1
    post: _
    """
    return _regroup(1, which, g0, g1, g2)


def individuals_regrouping_haploid(which: int, g0: int, g1: int, g2: int) -> bool:
    """
    pre: 0 <= which <= 3
    pre: -1 <= g0 <= 1 and -1 <= g1 <= 1 and -1 <= g2 <= 1
    post: _
    """
    return _regroup(2, which, g0, g1, g2)


def legacy_transform(a: int, b: int, c: int) -> bool:
    """
    The legacy position transform gives strictly increasing positive positions, unchanged where already so.
    pre: 0 <= a <= b <= c <= 6
    post: _
    """
    out = vcf.legacy_position_transform([a, b, c])
    ok = out[0] >= 1 and out[0] < out[1] < out[2]
    if 1 <= a < b < c:
        ok = ok and out == [a, b, c]
    return ok


def monomorphic_site(g0: int, g1: int) -> bool:
    """
    A site without derived alleles has ALT '.', with or without missing calls.
    pre: -1 <= g0 <= 0 and -1 <= g1 <= 0
    post: _
    """
    genos = [[g0, g1]]
    ts = FakeTS([4], genos, 10, alleles=("A",))
    txt = _run(ts, None, True)
    return _check_text(txt, [4], genos, [False], [[0], [1]], ["tsk_0", "tsk_1"], alt=".")


def _halve(xs):
    return nplite.A([int(v) // 2 for v in xs], int)


def position_transform_and_masks(p0: int, p1: int, p2: int, m0: bool, m1: bool, m2: bool, apz: bool) -> bool:
    """
    With a callable transform several sites can map to position 0: the error depends on exactly the unmasked ones,
    and POS is the transformed position.
    pre: 0 <= p0 < p1 < p2 < 8
    post: _
    """
    genos = [[0, 1], [1, 0], [1, 1]]
    masked = [m0, m1, m2]
    pos = [p0, p1, p2]
    ts = FakeTS(pos, genos, 10)
    zero_unmasked = any(p // 2 == 0 and not m for p, m in zip(pos, masked))
    try:
        txt = _run(ts, [m0, m1, m2], apz, transform=_halve)
    except ValueError:
        return (not apz) and zero_unmasked
    if (not apz) and zero_unmasked:
        return False
    return _check_text(txt, [p // 2 for p in pos], genos, masked, [[0], [1]], ["tsk_0", "tsk_1"])
