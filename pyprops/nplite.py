"""Tiny pure-Python stand-in for the numpy operations used by tskit/vcf.py (CrossHair realises symbolic
values at the numpy C boundary, so the module under analysis is given this instead; checked against numpy
on concrete cases at the start of every run by c16_props.selfcheck)."""
import builtins

int8 = 'int8'
int32 = 'int32'


class A:
    def __init__(self, data, dtype=None):
        self.d = list(data)
        self.dtype = dtype

    @property
    def shape(self):
        return (len(self.d),)

    def __len__(self):
        return len(self.d)

    def __iter__(self):
        return iter(self.d)

    def __getitem__(self, k):
        if isinstance(k, A):
            if k.dtype is bool:
                if len(k.d) != len(self.d):
                    raise IndexError('boolean index did not match indexed array')
                return A([x for x, m in zip(self.d, k.d) if m], self.dtype)
            return A([self.d[i] for i in k.d], self.dtype)
        if isinstance(k, (list, tuple)):
            # numpy: a list index is converted to an array first (bool list -> mask, int list -> fancy index)
            return self[array(k)]
        if isinstance(k, slice):
            return A(self.d[k], self.dtype)
        return self.d[k]

    def __setitem__(self, k, v):
        if isinstance(k, A):
            if k.dtype is bool:
                idx = [i for i, m in enumerate(k.d) if m]
            else:
                idx = list(k.d)
            vals = v.d if isinstance(v, A) else [v] * len(idx)
            for i, x in zip(idx, vals):
                self.d[i] = x
        else:
            self.d[k] = v

    def __invert__(self):
        if self.dtype is bool:
            return A([not x for x in self.d], bool)
        return A([-x - 1 for x in self.d], self.dtype)

    def __eq__(self, o):
        return A([x == o for x in self.d], bool)

    def __add__(self, o):
        return A([x + o for x in self.d], self.dtype)

    def copy(self):
        return A(self.d, self.dtype)

    def tobytes(self):
        return bytes(x & 0xff for x in self.d)


def array(x, dtype=None):
    if isinstance(x, A):
        src_dtype = x.dtype
        x = x.d
    else:
        src_dtype = None
    x = list(x)
    if dtype is bool:
        return A([bool(v) for v in x], bool)
    if dtype is int:
        return A([int(v) for v in x], int)
    if dtype is None:
        if src_dtype is not None:
            return A(x, src_dtype)
        if len(x) > 0 and builtins.all(isinstance(v, bool) for v in x):
            return A(x, bool)
        return A(x, int)
    return A(x, dtype)


def zeros(n, dtype=None):
    return A([False if dtype is bool else 0] * n, dtype)


def full(n, v, dtype=None):
    return A([v] * n, dtype)


def any(a):
    return builtins.any(a.d)


def round(x):
    return A([int(builtins.round(v)) for v in x], int)


def unique(a):
    return A(sorted(set(a.d)), a.dtype)
