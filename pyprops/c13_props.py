"""C13 contracts (Python facade) for CrossHair: BaseTable.__setitem__ / append on a stand-in table.  The row objects are
the real lazily-decoding tskit.Node rows; the low-level table and the destination metadata schema are recorders."""
import tskit
from tskit import tables as tables_mod


class _Schema:
    """Destination schema: encoding is visible in the value, so a row that skipped it is recognisable."""

    def validate_and_encode_row(self, obj):
        return ("encoded by the destination schema", obj)


class _LL:
    def __init__(self):
        self.calls = []

    def update_row(self, **kw):
        self.calls.append(("update_row", kw))

    def add_row(self, **kw):
        self.calls.append(("add_row", kw))
        return 7


class FakeNodeTable:
    __setitem__ = tables_mod.BaseTable.__setitem__
    append = tables_mod.BaseTable.append
    column_names = ["time", "flags", "population", "individual", "metadata", "metadata_offset"]

    def __init__(self, n):
        self.n = n
        self.ll_table = _LL()
        self.metadata_schema = _Schema()

    def __len__(self):
        return self.n

    def add_row(self, **kw):
        return self.ll_table.add_row(**kw)


def _row(flags, population, read_first):
    # a row as handed out by another table / tree sequence: raw bytes plus that table's decoder
    r = tskit.Node(id=3, flags=flags, time=1.5, population=population, individual=-1, metadata=b"raw",
                   metadata_decoder=lambda b: ("decoded by the source schema", b))
    if read_first:
        r.metadata  # decodes and caches
    return r


def setitem_index_and_columns(index: int, n: int, flags: int, population: int, read_first: bool) -> bool:
    """
    table[index] = row: list indexing (negative indexes count from the end, anything else raises IndexError and touches
    nothing); every column is taken from the row, and the metadata is the row's *decoded* metadata re-encoded by this
    table's schema - whether or not the row's metadata had been read before.
    pre: 1 <= n <= 5 and -12 <= index <= 12
    pre: 0 <= flags <= 3 and -1 <= population <= 4
    post: _
    """
    t = FakeNodeTable(n)
    r = _row(flags, population, read_first)
    try:
        t[index] = r
    except IndexError:
        return not (-n <= index < n) and t.ll_table.calls == []
    if not (-n <= index < n) or len(t.ll_table.calls) != 1:
        return False
    name, kw = t.ll_table.calls[0]
    return (name == "update_row" and kw["row_index"] == list(range(n))[index] and kw["flags"] == flags and kw["time"] == 1.5
            and kw["population"] == population and kw["individual"] == -1
            and kw["metadata"] == ("encoded by the destination schema", ("decoded by the source schema", b"raw"))
            and "metadata_offset" not in kw)


def append_passes_every_column(flags: int, population: int, read_first: bool) -> bool:
    """
    table.append(row) hands every column of the row (decoded metadata included) to add_row and returns the new id.
    pre: 0 <= flags <= 3 and -1 <= population <= 4
    post: _
    """
    t = FakeNodeTable(2)
    rid = t.append(_row(flags, population, read_first))
    name, kw = t.ll_table.calls[0]
    return (rid == 7 and name == "add_row" and kw == dict(time=1.5, flags=flags, population=population, individual=-1,
                                                           metadata=("decoded by the source schema", b"raw")))
