"""C15 contracts for CrossHair: the real tskit.combinatorics (pure Python) is executed
symbolically; n, ranks and permutation seeds are symbolic ints within the stated bounds."""
import collections
import itertools
from typing import List

from tskit import combinatorics as comb
from tskit.combinatorics import Combination, RankTree

NMAX = 5


def _bijection(n, s, l):
    try:
        t = RankTree.unrank(n, (s, l))
    except ValueError:
        if s >= comb.num_shapes(n):
            return True
        return l >= comb.num_labellings(n, s)
    r = t.rank()
    return r[0] == s and r[1] == l and s < comb.num_shapes(n) and l < comb.num_labellings(n, s)


def unrank_rank(n: int, s: int, l: int) -> bool:
    """
    Tree.unrank(n,(s,l)).rank()==(s,l) inside the dense range; rejected outside.
    pre: 1 <= n <= 4
    pre: 0 <= s <= 6
    pre: 0 <= l <= 16
    post: _
    """
    return _bijection(n, s, l)


def unrank_rank_n5a(s: int, l: int) -> bool:
    """
    pre: 0 <= s <= 5
    pre: 0 <= l <= 62
    post: _
    """
    return _bijection(5, s, l)


def unrank_rank_n5b(s: int, l: int) -> bool:
    """
    pre: 6 <= s <= 8
    pre: 0 <= l <= 62
    post: _
    """
    return _bijection(5, s, l)


def unrank_rank_n5c(s: int, l: int) -> bool:
    """
    pre: 9 <= s <= 13
    pre: 0 <= l <= 62
    post: _
    """
    return _bijection(5, s, l)


def unrank_rank_n6(s: int, l: int) -> bool:
    """
    pre: 0 <= s <= 7
    pre: 0 <= l <= 400
    post: _
    """
    n = 6
    try:
        t = RankTree.unrank(n, (s, l))
    except ValueError:
        if s >= comb.num_shapes(n):
            return True
        return l >= comb.num_labellings(n, s)
    r = t.rank()
    return r[0] == s and r[1] == l and s < comb.num_shapes(n) and l < comb.num_labellings(n, s)


def negative_ranks_rejected(n: int, s: int, l: int) -> bool:
    """
    pre: 1 <= n <= 4
    pre: -3 <= s <= 3
    pre: -3 <= l <= 3
    pre: s < 0 or l < 0
    post: _
    """
    try:
        RankTree.unrank(n, (s, l))
    except ValueError:
        return True
    return False


def comb_roundtrip(n: int, k: int, r: int) -> bool:
    """
    pre: 0 <= k <= n <= 6
    pre: 0 <= r
    post: _
    """
    els = list(range(n))
    total = Combination.comb(n, k)
    if r >= total:
        return True
    c = Combination.unrank(r, els, k)
    return Combination.rank(c, els) == r and len(c) == k and list(c) == sorted(set(c))


def wr_roundtrip(n: int, k: int, r: int) -> bool:
    """
    pre: 1 <= n <= 5
    pre: 0 <= k <= 4
    pre: 0 <= r
    post: _
    """
    total = Combination.comb_with_replacement(n, k)
    if r >= total:
        return True
    c = Combination.with_replacement_unrank(r, n, k)
    return Combination.with_replacement_rank(c, n) == r and len(c) == k and all(0 <= x < n for x in c)


def comb_counts(n: int, k: int) -> bool:
    """
    comb / comb_with_replacement are the cardinalities the rank ranges rely on.
    pre: 0 <= k <= n <= 7
    post: _
    """
    c = sum(1 for _ in itertools.combinations(range(n), k))
    w = sum(1 for _ in itertools.combinations_with_replacement(range(n), k))
    return Combination.comb(n, k) == c and (n == 0 or Combination.comb_with_replacement(n, k) == w)


class FakeTree:
    """The attributes RankTree.from_tsk_tree touches, over an explicit children map."""

    def __init__(self, children, root):
        self._children = children
        self.root = root
        self.num_roots = 1

    def children(self, u):
        return self._children.get(u, [])

    def is_leaf(self, u):
        return len(self._children.get(u, [])) == 0

    def num_children(self, u):
        return len(self._children.get(u, []))


def _to_fake(t, rot, rev, pre):
    """RankTree -> FakeTree with child order rotated by `rot`, optionally reversed, and internal node ids
    assigned in pre- or post-order."""
    n = t.num_leaves
    children = {}
    counter = [n + 2]

    def walk(node):
        if node.is_leaf():
            return node.label
        kids = list(node.children)
        k = rot % len(kids)
        kids = kids[k:] + kids[:k]
        if rev:
            kids.reverse()
        me = None
        if pre:
            me = counter[0]
            counter[0] += 1
        ids = [walk(c) for c in kids]
        if me is None:
            me = counter[0]
            counter[0] += 3
        children[me] = ids
        return me

    root = walk(t)
    return FakeTree(children, root)


def _invariant(n, s, l, rot, rev, pre):
    if s >= comb.num_shapes(n) or l >= comb.num_labellings(n, s):
        return True
    t = RankTree.unrank(n, (s, l))
    f = _to_fake(t, rot, rev, pre)
    r = RankTree.from_tsk_tree(f).rank()
    return r[0] == s and r[1] == l


def rank_invariant_n3(s: int, l: int, rot: int, rev: bool, pre: bool) -> bool:
    """
    rank() does not depend on child order or internal node numbering.
    pre: 0 <= s <= 1
    pre: 0 <= l <= 2
    pre: 0 <= rot <= 2
    post: _
    """
    return _invariant(3, s, l, rot, rev, pre)


def rank_invariant_n4(s: int, l: int, rot: int, pre: bool) -> bool:
    """
    pre: 0 <= s <= 4
    pre: 0 <= l <= 11
    pre: 0 <= rot <= 2
    post: _
    """
    return _invariant(4, s, l, rot, False, pre)


def rank_invariant_n4_reversed(s: int, l: int, rot: int, pre: bool) -> bool:
    """
    pre: 0 <= s <= 4
    pre: 0 <= l <= 11
    pre: 0 <= rot <= 2
    post: _
    """
    return _invariant(4, s, l, rot, True, pre)


def all_trees_in_rank_order(n: int) -> bool:
    """
    all_labelled_trees(n) lists every rank exactly once, in increasing rank order.
    pre: 1 <= n <= 4
    post: _
    """
    ranks = [tuple(t.rank()) for t in RankTree.all_labelled_trees(n)]
    expect = [(s, l) for s in range(comb.num_shapes(n)) for l in range(comb.num_labellings(n, s))]
    return ranks == expect


def all_shapes_in_rank_order(n: int) -> bool:
    """
    pre: 1 <= n <= 6
    post: _
    """
    ranks = [t.shape_rank() for t in RankTree.all_unlabelled_trees(n)]
    return ranks == list(range(comb.num_shapes(n)))


# --- topology counting against brute force -------------------------------------------
class _TS:
    def __init__(self, n):
        self.num_nodes = n


class CountTree:
    """What tree_count_topologies touches: samples, is_leaf, is_sample, nodes(postorder), children, roots."""

    def __init__(self, children, roots, num_nodes, samples):
        self._children = children
        self.roots = roots
        self.tree_sequence = _TS(num_nodes)
        self._samples = samples

    def samples(self):
        return list(self._samples)

    def is_leaf(self, u):
        return len(self._children.get(u, [])) == 0

    def is_sample(self, u):
        return u in self._samples

    def children(self, u):
        return self._children.get(u, [])

    def nodes(self, order="postorder"):
        out = []

        def walk(u):
            for c in self._children.get(u, []):
                walk(c)
            out.append(u)

        for r in self.roots:
            walk(r)
        return out


def _reduce(children, root, keep):
    """Nested-tuple form of the subtree spanned by `keep` (leaf -> set index), unary nodes removed."""
    kids = children.get(root, [])
    if not kids:
        return keep.get(root)
    subs = [x for x in (_reduce(children, c, keep) for c in kids) if x is not None]
    if not subs:
        return None
    if len(subs) == 1:
        return subs[0]
    return tuple(subs)


def _to_rank(nested, order):
    """RankTree rank of a nested tuple whose leaves are sample-set indexes (relabelled by `order`)."""
    if not isinstance(nested, tuple):
        return RankTree(children=[], label=order.index(nested))
    kids = sorted((_to_rank(x, order) for x in nested), key=RankTree.canonical_order)
    return RankTree(children=kids)


SHAPES = [
    # (children map, root, leaves)   4 or 5 leaves, with polytomies and a unary node
    ({8: [0, 1], 9: [2, 3], 10: [8, 9]}, 10, 4),
    ({8: [0, 1, 2], 9: [8, 3]}, 9, 4),
    ({8: [0, 1], 9: [8, 2], 10: [9, 3], 11: [10, 4]}, 11, 5),
    ({8: [0, 1], 9: [8], 10: [9, 2, 3]}, 10, 4),
    ({8: [0, 1, 2, 3]}, 8, 4),
    ({8: [0, 1], 9: [2, 3]}, [8, 9], 4),   # two roots (a gap, or an uncoalesced tree)
]


def _leaves_below(children, u):
    kids = children.get(u, [])
    if not kids:
        return [u]
    out = []
    for c in kids:
        out.extend(_leaves_below(children, c))
    return out


def _count_check(shape, assign):
    children, root, nleaves = SHAPES[shape]
    roots = root if isinstance(root, list) else [root]
    sets = [[u for u in range(nleaves) if assign[u] == k] for k in range(3)]
    tree = CountTree(children, roots, 12, list(range(nleaves)))
    tc = comb.tree_count_topologies(tree, sets)
    for r in range(1, 4):
        for idxs in itertools.combinations(range(3), r):
            expect = collections.Counter()
            if all(len(sets[i]) > 0 for i in idxs):
                for choice in itertools.product(*(sets[i] for i in idxs)):
                    # the chosen samples span a topology only inside one tree (root)
                    for rt in roots:
                        below = _leaves_below(children, rt)
                        if all(u in below for u in choice):
                            keep = {u: i for u, i in zip(choice, idxs)}
                            nested = _reduce(children, rt, keep)
                            rk = _to_rank(nested, list(idxs)).rank()
                            expect[(rk[0], rk[1])] += 1
            got = tc[idxs if len(idxs) > 1 else idxs[0]]
            got = collections.Counter({(k[0], k[1]): v for k, v in got.items()})
            if got != expect:
                return False
    return True


def count_topologies_shape0(a0: int, a1: int, a2: int, a3: int) -> bool:
    """
    tree_count_topologies == multiset of ranks over one-sample-per-set choices; balanced 4-leaf tree.
    a_i: sample i belongs to set a_i (3 = in no set).
    pre: 0 <= a0 <= 3 and 0 <= a1 <= 2 and 0 <= a2 <= 2 and 0 <= a3 <= 2
    post: _
    """
    return _count_check(0, [a0, a1, a2, a3])


def count_topologies_shape1(a0: int, a1: int, a2: int, a3: int) -> bool:
    """
    polytomy of three below the root
    pre: 0 <= a0 <= 3 and 0 <= a1 <= 2 and 0 <= a2 <= 2 and 0 <= a3 <= 2
    post: _
    """
    return _count_check(1, [a0, a1, a2, a3])


def count_topologies_shape2(a0: int, a1: int, a2: int, a3: int, a4: int) -> bool:
    """
    5-leaf caterpillar
    pre: 0 <= a0 <= 1 and 0 <= a1 <= 2 and 0 <= a2 <= 2 and 0 <= a3 <= 1 and 0 <= a4 <= 2
    post: _
    """
    return _count_check(2, [a0, a1, a2, a3, a4])


def count_topologies_shape2b(a0: int, a1: int, a2: int, a3: int, a4: int) -> bool:
    """
    5-leaf caterpillar, first sample in set 2 or in no set
    pre: 2 <= a0 <= 3 and 0 <= a1 <= 2 and 0 <= a2 <= 2 and 0 <= a3 <= 1 and 0 <= a4 <= 2
    post: _
    """
    return _count_check(2, [a0, a1, a2, a3, a4])


def count_topologies_shape3(a0: int, a1: int, a2: int, a3: int) -> bool:
    """
    unary node above a cherry, inside a polytomy
    pre: 0 <= a0 <= 3 and 0 <= a1 <= 2 and 0 <= a2 <= 2 and 0 <= a3 <= 2
    post: _
    """
    return _count_check(3, [a0, a1, a2, a3])


def count_topologies_shape4(a0: int, a1: int, a2: int, a3: int) -> bool:
    """
    star tree
    pre: 0 <= a0 <= 3 and 0 <= a1 <= 2 and 0 <= a2 <= 2 and 0 <= a3 <= 2
    post: _
    """
    return _count_check(4, [a0, a1, a2, a3])


def count_topologies_two_roots(a0: int, a1: int, a2: int, a3: int) -> bool:
    """
    two cherries under separate roots: counts of the roots add up
    pre: 0 <= a0 <= 3 and 0 <= a1 <= 2 and 0 <= a2 <= 2 and 0 <= a3 <= 2
    post: _
    """
    return _count_check(5, [a0, a1, a2, a3])

