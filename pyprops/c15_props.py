"""C15 contracts for CrossHair: the real tskit.combinatorics (pure Python) is executed
symbolically; n, ranks and permutation seeds are symbolic ints within the stated bounds."""
import collections
import itertools
from typing import List

from tskit import combinatorics as comb
from tskit.combinatorics import Combination, RankTree

NMAX = 5


def unrank_rank(n: int, s: int, l: int) -> bool:
    """
    Tree.unrank(n,(s,l)).rank()==(s,l) inside the dense range; rejected outside.
    pre: 1 <= n <= 5
    pre: 0 <= s <= 14
    pre: 0 <= l <= 130
    post: _
    """
    try:
        t = RankTree.unrank(n, (s, l))
    except ValueError:
        if s >= comb.num_shapes(n):
            return True
        return l >= comb.num_labellings(n, s)
    r = t.rank()
    return r[0] == s and r[1] == l and s < comb.num_shapes(n) and l < comb.num_labellings(n, s)


def unrank_rank_n6(s: int, l: int) -> bool:
    """
    pre: 0 <= s <= 7
    pre: 0 <= l <= 400
    post: _
    """
    n = 6
    try:
        t = RankTree.unrank(n, (s, l))
    except ValueError:
        if s >= comb.num_shapes(n):
            return True
        return l >= comb.num_labellings(n, s)
    r = t.rank()
    return r[0] == s and r[1] == l and s < comb.num_shapes(n) and l < comb.num_labellings(n, s)


def negative_ranks_rejected(n: int, s: int, l: int) -> bool:
    """
    pre: 1 <= n <= 4
    pre: -3 <= s <= 3
    pre: -3 <= l <= 3
    pre: s < 0 or l < 0
    post: _
    """
    try:
        RankTree.unrank(n, (s, l))
    except ValueError:
        return True
    return False


def comb_roundtrip(n: int, k: int, r: int) -> bool:
    """
    pre: 0 <= k <= n <= 6
    pre: 0 <= r
    post: _
    """
    els = list(range(n))
    total = Combination.comb(n, k)
    if r >= total:
        return True
    c = Combination.unrank(r, els, k)
    return Combination.rank(c, els) == r and len(c) == k and list(c) == sorted(set(c))


def wr_roundtrip(n: int, k: int, r: int) -> bool:
    """
    pre: 1 <= n <= 5
    pre: 0 <= k <= 4
    pre: 0 <= r
    post: _
    """
    total = Combination.comb_with_replacement(n, k)
    if r >= total:
        return True
    c = Combination.with_replacement_unrank(r, n, k)
    return Combination.with_replacement_rank(c, n) == r and len(c) == k and all(0 <= x < n for x in c)


def comb_counts(n: int, k: int) -> bool:
    """
    comb / comb_with_replacement are the cardinalities the rank ranges rely on.
    pre: 0 <= k <= n <= 7
    post: _
    """
    c = sum(1 for _ in itertools.combinations(range(n), k))
    w = sum(1 for _ in itertools.combinations_with_replacement(range(n), k))
    return Combination.comb(n, k) == c and (n == 0 or Combination.comb_with_replacement(n, k) == w)


class FakeTree:
    """The attributes RankTree.from_tsk_tree touches, over an explicit children map."""

    def __init__(self, children, root):
        self._children = children
        self.root = root
        self.num_roots = 1

    def children(self, u):
        return self._children.get(u, [])

    def is_leaf(self, u):
        return len(self._children.get(u, [])) == 0

    def num_children(self, u):
        return len(self._children.get(u, []))


def _to_fake(t, seed):
    """RankTree -> FakeTree with child order and internal node numbering scrambled by `seed`."""
    n = t.num_leaves
    children = {}
    counter = [n + (seed % 3)]

    def walk(node, s):
        if node.is_leaf():
            return node.label
        kids = list(node.children)
        k = s % len(kids)
        kids = kids[k:] + kids[:k]
        if (s // 2) % 2:
            kids.reverse()
        # internal ids: pre- or post-order depending on the seed
        me = None
        if s % 2:
            me = counter[0]
            counter[0] += 1
        ids = [walk(c, s // 3 + i + 1) for i, c in enumerate(kids)]
        if me is None:
            me = counter[0]
            counter[0] += 2
        children[me] = ids
        return me

    root = walk(t, seed)
    return FakeTree(children, root)


def rank_invariant(n: int, s: int, l: int, seed: int) -> bool:
    """
    rank() does not depend on child order or internal node numbering.
    pre: 2 <= n <= 4
    pre: 0 <= s <= 4
    pre: 0 <= l <= 14
    pre: 0 <= seed <= 17
    post: _
    """
    if s >= comb.num_shapes(n) or l >= comb.num_labellings(n, s):
        return True
    t = RankTree.unrank(n, (s, l))
    f = _to_fake(t, seed)
    r = RankTree.from_tsk_tree(f).rank()
    return r[0] == s and r[1] == l


def all_trees_in_rank_order(n: int) -> bool:
    """
    all_labelled_trees(n) lists every rank exactly once, in increasing rank order.
    pre: 1 <= n <= 4
    post: _
    """
    ranks = [tuple(t.rank()) for t in RankTree.all_labelled_trees(n)]
    expect = [(s, l) for s in range(comb.num_shapes(n)) for l in range(comb.num_labellings(n, s))]
    return ranks == expect


def all_shapes_in_rank_order(n: int) -> bool:
    """
    pre: 1 <= n <= 6
    post: _
    """
    ranks = [t.shape_rank() for t in RankTree.all_unlabelled_trees(n)]
    return ranks == list(range(comb.num_shapes(n)))


# --- topology counting against brute force -------------------------------------------
class _TS:
    def __init__(self, n):
        self.num_nodes = n


class CountTree:
    """What tree_count_topologies touches: samples, is_leaf, is_sample, nodes(postorder), children, roots."""

    def __init__(self, children, roots, num_nodes, samples):
        self._children = children
        self.roots = roots
        self.tree_sequence = _TS(num_nodes)
        self._samples = samples

    def samples(self):
        return list(self._samples)

    def is_leaf(self, u):
        return len(self._children.get(u, [])) == 0

    def is_sample(self, u):
        return u in self._samples

    def children(self, u):
        return self._children.get(u, [])

    def nodes(self, order="postorder"):
        out = []

        def walk(u):
            for c in self._children.get(u, []):
                walk(c)
            out.append(u)

        for r in self.roots:
            walk(r)
        return out


def _reduce(children, root, keep):
    """Nested-tuple form of the subtree spanned by `keep` (leaf -> set index), unary nodes removed."""
    kids = children.get(root, [])
    if not kids:
        return keep.get(root)
    subs = [x for x in (_reduce(children, c, keep) for c in kids) if x is not None]
    if not subs:
        return None
    if len(subs) == 1:
        return subs[0]
    return tuple(subs)


def _to_rank(nested, order):
    """RankTree rank of a nested tuple whose leaves are sample-set indexes (relabelled by `order`)."""
    if not isinstance(nested, tuple):
        return RankTree(children=[], label=order.index(nested))
    kids = sorted((_to_rank(x, order) for x in nested), key=RankTree.canonical_order)
    return RankTree(children=kids)


SHAPES = [
    # (children map, root, leaves)   4 or 5 leaves, with polytomies and a unary node
    ({8: [0, 1], 9: [2, 3], 10: [8, 9]}, 10, 4),
    ({8: [0, 1, 2], 9: [8, 3]}, 9, 4),
    ({8: [0, 1], 9: [8, 2], 10: [9, 3], 11: [10, 4]}, 11, 5),
    ({8: [0, 1], 9: [8], 10: [9, 2, 3]}, 10, 4),
    ({8: [0, 1, 2, 3]}, 8, 4),
]


def count_topologies_bruteforce(shape: int, a0: int, a1: int, a2: int, a3: int, a4: int) -> bool:
    """
    tree_count_topologies == multiset of ranks over one-sample-per-set choices.
    a_i in {0,1,2,3}: sample i belongs to set a_i (3 = none).
    pre: 0 <= shape <= 4
    pre: 0 <= a0 <= 3 and 0 <= a1 <= 3 and 0 <= a2 <= 3 and 0 <= a3 <= 3 and 0 <= a4 <= 3
    post: _
    """
    children, root, nleaves = SHAPES[shape]
    assign = [a0, a1, a2, a3, a4][:nleaves]
    sets = [[u for u in range(nleaves) if assign[u] == k] for k in range(3)]
    tree = CountTree(children, [root], 12, list(range(nleaves)))
    tc = comb.tree_count_topologies(tree, sets)
    for r in range(1, 4):
        for idxs in itertools.combinations(range(3), r):
            expect = collections.Counter()
            if all(len(sets[i]) > 0 for i in idxs):
                for choice in itertools.product(*(sets[i] for i in idxs)):
                    keep = {u: i for u, i in zip(choice, idxs)}
                    nested = _reduce(children, root, keep)
                    rk = _to_rank(nested, list(idxs)).rank()
                    expect[(rk[0], rk[1])] += 1
            got = tc[idxs if len(idxs) > 1 else idxs[0]]
            got = collections.Counter({(k[0], k[1]): v for k, v in got.items()})
            if got != expect:
                return False
    return True
