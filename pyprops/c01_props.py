"""C01 contracts (Python half) for CrossHair: TreeSequence._edge_diffs_forward/_reverse, edge_diffs() and edgesets()
are Python programs over the edge columns and the two index orders; here the real functions run on a fake tree
sequence whose edge coordinates are symbolic binary64 values (CrossHair's exact IEEE model, CH_PRECISE_FLOATS=1; the
indexes are built from the coordinates the way build_index orders them).  All edges have parent 3."""
import tskit

PARENT = 3


class _NoMeta:
    def decode_row(self, b):
        return b


class _Schemas:
    edge = _NoMeta()


class _LL:
    def __init__(self, ts):
        self.ts = ts

    def get_edge(self, j):
        return (self.ts.edges_left[j], self.ts.edges_right[j], PARENT, self.ts.child[j], b"")


class FakeTS:
    """Exactly what the functions read."""
    _edge_diffs_forward = tskit.TreeSequence._edge_diffs_forward
    _edge_diffs_reverse = tskit.TreeSequence._edge_diffs_reverse
    edge_diffs = tskit.TreeSequence.edge_diffs
    edgesets = tskit.TreeSequence.edgesets

    def __init__(self, left, right, child, seq_len):
        self.edges_left = left
        self.edges_right = right
        self.child = child
        self.sequence_length = seq_len
        self.num_edges = len(left)
        m = list(range(len(left)))
        # insertion order: by left; removal order: by right (ties broken like build_index: by the remaining keys; all
        # parents are equal here, so by child / reversed child)
        self.indexes_edge_insertion_order = sorted(m, key=lambda j: (left[j], child[j], j))
        self.indexes_edge_removal_order = sorted(m, key=lambda j: (right[j], -child[j], -j))
        self.table_metadata_schemas = _Schemas()
        self._ll_tree_sequence = _LL(self)


def _forward_ok(left, right, child, L):
    n = len(left)
    ts = FakeTS(left, right, child, L)
    expect_left = 0.0
    for (iv, out, inn) in ts._edge_diffs_forward():
        if iv.left != expect_left or not iv.left < iv.right:
            return False
        if sorted(e.id for e in out) != [j for j in range(n) if right[j] == iv.left]:
            return False
        if sorted(e.id for e in inn) != [j for j in range(n) if left[j] == iv.left]:
            return False
        if any(iv.left < x < iv.right for x in left + right):
            return False
        if any((e.left, e.right, e.parent, e.child) != (left[e.id], right[e.id], PARENT, child[e.id]) for e in out + inn):
            return False
        expect_left = iv.right
    return expect_left == L


def _reverse_ok(left, right, child, L):
    n = len(left)
    ts = FakeTS(left, right, child, L)
    expect_right = L
    for (iv, out, inn) in ts._edge_diffs_reverse():
        if iv.right != expect_right or not iv.left < iv.right:
            return False
        if sorted(e.id for e in out) != [j for j in range(n) if left[j] == iv.right]:
            return False
        if sorted(e.id for e in inn) != [j for j in range(n) if right[j] == iv.right]:
            return False
        if any(iv.left < x < iv.right for x in left + right):
            return False
        expect_right = iv.left
    return expect_right == 0.0


def _edgesets_ok(left, right, child, L):
    """At every position class (0 and every edge end-point) the children listed for the parent are exactly the children
    the edge rows give it, and no edgeset covers a position where the parent has no children."""
    n = len(left)
    ts = FakeTS(left, right, child, L)
    sets = list(ts.edgesets())
    for x in [0.0] + left + [r for r in right if r < L]:
        want = sorted({child[j] for j in range(n) if left[j] <= x < right[j]})
        got = [es for es in sets if es.left <= x < es.right]
        if want:
            if len(got) != 1 or got[0].parent != PARENT or list(got[0].children) != want:
                return False
        elif got:
            return False
    return all(es.left < es.right for es in sets)


# two edges of the same parent/child pair, disjoint and possibly abutting
def edge_diffs_forward_same_pair(l0: float, r0: float, l1: float, r1: float) -> bool:
    """
    Forward edge diffs: the intervals partition [0,L) at exactly the edge end-points; edges_out / edges_in are exactly
    the edges ending / starting at the left end of each interval, with their own coordinates.
    pre: 0 <= l0 < r0 <= l1 < r1 <= 4
    post: _
    """
    return _forward_ok([l0, l1], [r0, r1], [0, 0], 4.0)


def edge_diffs_reverse_same_pair(l0: float, r0: float, l1: float, r1: float) -> bool:
    """
    Reverse edge diffs: the same partition from the right; edges_out start at the right end, edges_in end there.
    pre: 0 <= l0 < r0 <= l1 < r1 <= 4
    post: _
    """
    return _reverse_ok([l0, l1], [r0, r1], [0, 0], 4.0)


def edgesets_same_pair(l0: float, r0: float, l1: float, r1: float) -> bool:
    """
    edgesets() when one parent/child relationship is stored as two edges (also abutting): the child is listed at
    exactly the positions covered by an edge.
    pre: 0 <= l0 < r0 <= l1 < r1 <= 4
    post: _
    """
    return _edgesets_ok([l0, l1], [r0, r1], [0, 0], 4.0)


# two sibling edges, arbitrarily overlapping
def edge_diffs_forward_siblings(l0: float, r0: float, l1: float, r1: float) -> bool:
    """
    pre: 0 <= l0 < r0 <= 4 and 0 <= l1 < r1 <= 4
    post: _
    """
    return _forward_ok([l0, l1], [r0, r1], [0, 1], 4.0)


def edge_diffs_reverse_siblings(l0: float, r0: float, l1: float, r1: float) -> bool:
    """
    pre: 0 <= l0 < r0 <= 4 and 0 <= l1 < r1 <= 4
    post: _
    """
    return _reverse_ok([l0, l1], [r0, r1], [0, 1], 4.0)


def edgesets_siblings(l0: float, r0: float, l1: float, r1: float) -> bool:
    """
    pre: 0 <= l0 < r0 <= 4 and 0 <= l1 < r1 <= 4
    post: _
    """
    return _edgesets_ok([l0, l1], [r0, r1], [0, 1], 4.0)


# three edges: a split pair and a sibling
def edge_diffs_forward_three(l0: float, r0: float, l1: float, r1: float, l2: float, r2: float) -> bool:
    """
    pre: 0 <= l0 < r0 <= l1 < r1 <= 6 and 0 <= l2 < r2 <= 6
    post: _
    """
    return _forward_ok([l0, l1, l2], [r0, r1, r2], [0, 0, 1], 6.0)


def edge_diffs_reverse_three(l0: float, r0: float, l1: float, r1: float, l2: float, r2: float) -> bool:
    """
    pre: 0 <= l0 < r0 <= l1 < r1 <= 6 and 0 <= l2 < r2 <= 6
    post: _
    """
    return _reverse_ok([l0, l1, l2], [r0, r1, r2], [0, 0, 1], 6.0)


def edgesets_three(l0: float, r0: float, l1: float, r1: float, l2: float, r2: float) -> bool:
    """
    pre: 0 <= l0 < r0 <= l1 < r1 <= 6 and 0 <= l2 < r2 <= 6
    post: _
    """
    return _edgesets_ok([l0, l1, l2], [r0, r1, r2], [0, 0, 1], 6.0)
