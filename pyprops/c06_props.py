"""C06 contracts (Python half) for CrossHair: the real Tree.seek_index / Tree.seek / next / prev / TreeIterator run on a
fake low-level tree that behaves as the C cursor does (the C half of C06 decides that): n trees, tree k covers [k, k+1),
index -1 is the null state."""
import tskit


class _LL:
    """The C tree cursor's contract."""

    def __init__(self, n):
        self.n = n
        self.index = -1
        self.calls = []

    def first(self):
        self.index = 0

    def last(self):
        self.index = self.n - 1

    def next(self):
        self.index = self.index + 1 if self.index + 1 < self.n else -1
        return self.index != -1

    def prev(self):
        self.index = (self.n - 1 if self.index == -1 else self.index - 1)
        return self.index != -1

    def clear(self):
        self.index = -1

    def seek_index(self, i):
        self.calls.append(i)
        assert 0 <= i < self.n  # the C layer is only ever handed a valid index
        self.index = i

    def seek(self, x):
        self.calls.append(x)
        assert 0 <= x < self.n
        self.index = 0  # which tree contains x is the C half's subject


class _TS:
    def __init__(self, n):
        self.num_trees = n
        self.sequence_length = float(n)


class FakeTree:
    next = tskit.Tree.next
    prev = tskit.Tree.prev
    first = tskit.Tree.first
    last = tskit.Tree.last
    clear = tskit.Tree.clear
    seek_index = tskit.Tree.seek_index
    seek = tskit.Tree.seek

    def __init__(self, n):
        self.tree_sequence = _TS(n)
        self._ll_tree = _LL(n)


def seek_index_like_a_list(index: int, n: int) -> bool:
    """
    Tree.seek_index follows Python's list indexing: an index in [-n, n) lands on tree index % n, anything else raises
    IndexError and leaves the tree where it was.
    pre: 1 <= n <= 6
    pre: -20 <= index <= 20
    post: _
    """
    t = FakeTree(n)
    try:
        t.seek_index(index)
    except IndexError:
        return not (-n <= index < n) and t._ll_tree.index == -1 and t._ll_tree.calls == []
    return -n <= index < n and t._ll_tree.index == list(range(n))[index]


def seek_position_bounds(x: float) -> bool:
    """
    Tree.seek(x) raises ValueError exactly when x is outside [0, L) (NaN and infinities included) and otherwise hands x
    to the cursor; L = 3.0, x any binary64 value.
    post: _
    """
    t = FakeTree(3)
    try:
        t.seek(x)
    except ValueError:
        return not (0.0 <= x < 3.0) and t._ll_tree.calls == []
    return 0.0 <= x < 3.0 and len(t._ll_tree.calls) == 1


def iterators_visit_every_tree_once(n: int, extra: int) -> bool:
    """
    Forward and reversed TreeIterator visit tree indexes 0..n-1 / n-1..0 once each, report the number of trees, and stay
    exhausted afterwards (the tree is back in the null state).
    pre: 1 <= n <= 5
    pre: 0 <= extra <= 2
    post: _
    """
    t = FakeTree(n)
    it = tskit.trees.TreeIterator(t)
    fwd = [tr._ll_tree.index for tr in it]
    ok = fwd == list(range(n)) and len(it) == n and t._ll_tree.index == -1
    for _ in range(extra):
        try:
            next(it)
            return False
        except StopIteration:
            pass
    t2 = FakeTree(n)
    it2 = reversed(tskit.trees.TreeIterator(t2))
    back = [tr._ll_tree.index for tr in it2]
    return ok and back == list(range(n - 1, -1, -1)) and t2._ll_tree.index == -1


def next_prev_return_values(n: int, k: int, forward: bool) -> bool:
    """
    next()/prev() return False exactly when the tree enters the null state, over k steps in one direction from null.
    pre: 1 <= n <= 4
    pre: 0 <= k <= 10
    post: _
    """
    t = FakeTree(n)
    for _ in range(k):
        r = t.next() if forward else t.prev()
        if r is not (t._ll_tree.index != -1):
            return False
    return True
