"""C18 contracts (Python half) for CrossHair: Tree._as_newick_fast sizes the buffer that the C writer needs;
text_formats.wrap_text / write_fasta wrap sequences as documented.  The contract between the two halves
(proved on the C side by harness/c18_newick.c): the C writer succeeds iff buffer_size >= len(text) + 1."""
import os

import tskit
from tskit import text_formats
from tskit import trees as trees_mod


class _Log10:
    """Stand-in for math.log10 on integers: carries the argument; ceil() below evaluates exactly in integers."""

    def __init__(self, n):
        self.n = n


class mathlite:
    @staticmethod
    def log10(n):
        return _Log10(n)

    @staticmethod
    def ceil(x):
        if isinstance(x, _Log10):
            # smallest k with 10**k >= n (n >= 1), as math.ceil(math.log10(n)) gives for the values used here
            k = 0
            p = 1
            while p < x.n:
                p *= 10
                k += 1
            return k
        import math
        return math.ceil(x)


if not os.environ.get('VERIF_REPLAY_REAL'):
    trees_mod.math = mathlite


def _ndigits(x):
    """Number of characters of '%d' % x for x >= 0."""
    k = 1
    p = 10
    while x >= p:
        p *= 10
        k += 1
    return k


def _numlen(x, precision):
    """len('%.{p}f' % x) for a non-negative integer x."""
    return _ndigits(x) + (1 + precision if precision > 0 else 0)


class _TS:
    def __init__(self, num_nodes, min_time):
        self.num_nodes = num_nodes
        self.min_time = min_time


class _LL:
    """Plays the C writer: computes the length of the text it would write and records whether the buffer suffices
    (the C writer succeeds iff buffer_size >= len(text) + 1: harness/c18_newick.c)."""

    def __init__(self, need_fn):
        self.need_fn = need_fn
        self.ok = None

    def get_newick(self, precision, root, buffer_size, legacy_ms_labels):
        self.ok = buffer_size >= self.need_fn(precision) + 1
        return ""


class FakeTree:
    def __init__(self, root_time, min_time, num_nodes, need_fn):
        self.tree_sequence = _TS(num_nodes, min_time)
        self._root_time = root_time
        self._ll_tree = _LL(need_fn)

    def time(self, u):
        return self._root_time


def newick_buffer_cherry(t0: int, t1: int, t2: int, precision: int, big_ids: bool) -> bool:
    """
    The buffer handed to the C newick writer is large enough: cherry (n_a:b0,n_b:b1); with leaves at any (also
    negative) integer times below the root, any precision, small or 3-digit node ids.
    pre: -100000 <= t0 < t2 and -100000 <= t1 < t2 and t2 <= 100000
    pre: 0 <= precision <= 3
    post: _
    """
    lab = 3 if big_ids else 1
    num_nodes = 1000 if big_ids else 3

    def need(p):
        # "(" "n" id ":" len "," "n" id ":" len ")" ";"
        return 1 + (1 + lab) + 1 + _numlen(t2 - t0, p) + 1 + (1 + lab) + 1 + _numlen(t2 - t1, p) + 1 + 1

    tree = FakeTree(t2, min(t0, t1), num_nodes, need)
    tskit.Tree._as_newick_fast(tree, root=2, precision=precision, legacy_ms_labels=False)
    return bool(tree._ll_tree.ok)


def newick_buffer_caterpillar(t0: int, t1: int, t2: int, t3: int, t4: int, precision: int) -> bool:
    """
    The same for ((n0:,n1:):,n2:); with node times in [-99, 99].
    pre: -99 <= t0 < t3 and -99 <= t1 < t3 and t3 < t4 <= 99 and -99 <= t2 < t4
    pre: 0 <= precision <= 2
    post: _
    """
    def need(p):
        inner = 1 + 2 + 1 + _numlen(t3 - t0, p) + 1 + 2 + 1 + _numlen(t3 - t1, p) + 1 + 1 + _numlen(t4 - t3, p)
        return 1 + inner + 1 + 2 + 1 + _numlen(t4 - t2, p) + 1 + 1

    tree = FakeTree(t4, min(t0, t1, t2), 5, need)
    tskit.Tree._as_newick_fast(tree, root=4, precision=precision, legacy_ms_labels=False)
    return bool(tree._ll_tree.ok)


def wrap_text_lines(n: int, width: int) -> bool:
    """
    wrap_text splits into lines of exactly `width` characters (the last may be shorter); width 0 means no wrapping.
    (Sequences are never empty: an alignment has sequence_length >= 1 characters.)
    pre: 1 <= n <= 12
    pre: 0 <= width <= 6
    post: _
    """
    text = "".join("ACGT"[i % 4] for i in range(n))
    lines = list(text_formats.wrap_text(text, width))
    if width == 0:
        return lines == [text]
    if "".join(lines) != text:
        return False
    if any(len(l) != width for l in lines[:-1]):
        return False
    return n == 0 or 0 < len(lines[-1]) <= width


# ---- FASTA / NEXUS record assembly (pure Python over samples(), alignments(), trees()) ----------------------------
from tskit import text_formats as _tf  # noqa: E402


def _tf_print(*args, sep=" ", end="\n", file=None):
    file.write(sep.join(str(a) for a in args) + end)


_tf.print = _tf_print  # CrossHair silences the builtin print


class _Out:
    def __init__(self):
        self.parts = []

    def write(self, s):
        self.parts.append(s)

    def text(self):
        return "".join(self.parts)


class _Iv:
    def __init__(self, left, right):
        self.left = left
        self.right = right


class _FakeTree:
    def __init__(self, k):
        self.interval = _Iv(float(k), float(k + 1))
        self.k = k

    def as_newick(self, precision=None):
        return "(tree%d);" % self.k


class _FakeTS:
    """What write_fasta / write_nexus read: sample ids, one alignment per sample, the trees."""

    def __init__(self, samples, alignments, ntrees, discrete=True, num_sites=1):
        self._samples = samples
        self._alignments = alignments
        self.num_samples = len(samples)
        self.discrete_genome = discrete
        self.num_sites = num_sites
        self.sequence_length = float(len(alignments[0])) if alignments else 1.0
        self._ntrees = ntrees
        self.asked = None

    def samples(self):
        return list(self._samples)

    def alignments(self, reference_sequence=None, missing_data_character=None):
        self.asked = (reference_sequence, missing_data_character)
        return iter(self._alignments)

    def trees(self):
        return iter(_FakeTree(k) for k in range(self._ntrees))


_ALN = ["ACGTAC", "TTGTAA", "NNGTCC"]


def _wrap(a, w):
    return [a] if w == 0 else [a[i:i + w] for i in range(0, len(a), w)]


def fasta_records_are_named_after_their_nodes(s0: int, s1: int, s2: int, wsel: int) -> bool:
    """
    write_fasta: one record per sample, in samples() order, headed '>n<node id>' (whatever the ids are), carrying that
    sample's alignment wrapped at the requested width - compared with the whole expected text.
    pre: 7 <= s0 < s1 < s2 <= 11
    pre: 0 <= wsel <= 3
    post: _
    """
    width = (0, 4, 6, 7)[wsel]
    ts = _FakeTS([s0, s1, s2], _ALN, 1)
    out = _Out()
    _tf.write_fasta(ts, out, wrap_width=width, reference_sequence=None, missing_data_character="N")
    want = ""
    for u, a in zip([s0, s1, s2], _ALN):
        want += ">n" + str(u) + "\n"
        for ln in _wrap(a, width):
            want += ln + "\n"
    return out.text() == want and ts.asked == (None, "N")


def fasta_rejects_bad_widths(width: int) -> bool:
    """
    pre: -3 <= width <= 3
    post: _
    """
    ts = _FakeTS([0, 1, 2], _ALN, 1)
    try:
        _tf.write_fasta(ts, _Out(), wrap_width=width, reference_sequence=None, missing_data_character=None)
    except ValueError:
        return width < 0
    return width >= 0


def nexus_blocks(s0: int, s1: int, s2: int, ntrees: int, trees_flag: int, aln_flag: int, discrete: bool, num_sites: int) -> bool:
    """
    write_nexus: TAXA lists the samples as n<id> in order; the DATA block (present iff requested, or by default for a
    discrete genome with sites) has one row per sample pairing n<id> with its alignment; the TREES block (present
    unless switched off) has one TREE line per tree labelled t<left>^<right> - compared with the whole expected text.
    pre: 8 <= s0 < s1 < s2 <= 11
    pre: 1 <= ntrees <= 2 and 0 <= trees_flag <= 2 and 0 <= aln_flag <= 2 and 0 <= num_sites <= 1
    post: _
    """
    samples = [s0, s1, s2]
    ts = _FakeTS(samples, _ALN, ntrees, discrete, num_sites)
    out = _Out()
    flag = {0: None, 1: True, 2: False}
    _tf.write_nexus(ts, out, precision=None, include_trees=flag[trees_flag], include_alignments=flag[aln_flag],
                    reference_sequence=None, missing_data_character=None)
    names = ["n" + str(u) for u in samples]
    want = "#NEXUS\nBEGIN TAXA;\n  DIMENSIONS NTAX=3;\n  TAXLABELS " + names[0] + " " + names[1] + " " + names[2] + ";\nEND;\n"
    want_aln = (discrete and num_sites > 0) if aln_flag == 0 else aln_flag == 1
    if want_aln:
        want += "BEGIN DATA;\n  DIMENSIONS NCHAR=6;\n  FORMAT DATATYPE=DNA MISSING=?;\n  MATRIX\n"
        for n, a in zip(names, _ALN):
            want += "    " + n + " " + a + "\n"
        want += "  ;\nEND;\n"
    if trees_flag != 2:
        prec = 0 if discrete else 17
        want += "BEGIN TREES;\n"
        for k in range(ntrees):
            want += "  TREE t%s^%s = [&R] (tree%d);\n" % ("{0:.{1}f}".format(float(k), prec), "{0:.{1}f}".format(float(k + 1), prec), k)
        want += "END;\n"
    return out.text() == want
