"""C03 contract (Python half) for CrossHair: TreeSequence.genotype_matrix assembles the rows the Variant decoder
produces (the C half decides the decoder).  The Variant is replaced by a stand-in with fixed per-site genotypes; which
sites carry mutations, the sample subset and the options are symbolic."""
import numpy as np
import tskit
from tskit import trees as trees_mod

_made = []


class _FakeVariant:
    def __init__(self, ts, samples=None, isolated_as_missing=None, alleles=None):
        self.ts = ts
        self.args = (samples, isolated_as_missing, alleles)
        self.genotypes = None
        self.decoded = []
        _made.append(self)

    def decode(self, site_id):
        self.decoded.append(site_id)
        cols = range(self.ts.num_samples) if self.args[0] is None else self.args[0]
        self.genotypes = np.array([self.ts.G[site_id][c] for c in cols], dtype=np.int32)


class _Tskit:
    """Stands in for the module global `tskit` inside trees.py while the contract runs."""
    Variant = _FakeVariant


class FakeTS:
    genotype_matrix = tskit.TreeSequence.genotype_matrix

    def __init__(self, G, has_mut):
        self.G = G
        self.num_sites = len(G)
        self.num_samples = len(G[0])
        self.num_mutations = sum(has_mut)
        self.mutations_site = np.array([s for s, h in enumerate(has_mut) if h], dtype=np.int32)
        self.sites_position = np.arange(len(G), dtype=float)


def genotype_matrix_has_every_site(h0: bool, h1: bool, h2: bool, subset: bool, iso: int) -> bool:
    """
    genotype_matrix returns one row per site - also for sites without mutations, where an isolated sample is missing
    (-1) and not the ancestral allele - holding what the Variant decoder gives for that site and those samples.
    pre: 0 <= iso <= 2
    post: _
    """
    has_mut = [h0, h1, h2]
    # site rows as the decoder reports them: a mutation-free site still has a missing (isolated) last sample
    G = [[1, 0, 2] if h else [0, 0, -1] for h in has_mut]
    ts = FakeTS(G, has_mut)
    samples = [2, 0] if subset else None
    saved = trees_mod.tskit
    trees_mod.tskit = _Tskit
    del _made[:]
    try:
        M = ts.genotype_matrix(samples=samples, isolated_as_missing={0: None, 1: True, 2: False}[iso])
    finally:
        trees_mod.tskit = saved
    cols = [2, 0] if subset else [0, 1, 2]
    want = [[G[s][c] for c in cols] for s in range(3)]
    v = _made[0]
    return (M.tolist() == want and v.args[0] == samples and v.args[1] == (True if iso in (0, 1) else False)
            and v.args[2] is None)
