"""Pure-Python model of the subset of `struct` used by tskit.metadata (little-endian, standard sizes)."""
import re
class error(Exception):
    pass
_SIZES = {'b':1,'B':1,'?':1,'h':2,'H':2,'i':4,'I':4,'l':4,'L':4,'q':8,'Q':8,'c':1}
_SIGNED = set('bhilq')
def _parse(fmt):
    if fmt[:1] in '<>=!@':
        fmt = fmt[1:]
    out = []
    for m in re.finditer(r'(\d*)([a-zA-Z?])', fmt):
        n, c = m.group(1), m.group(2)
        if c in 'spx':
            out.append((c, int(n) if n else 1))
        else:
            for _ in range(int(n) if n else 1):
                out.append((c, _SIZES[c]))
    return out
def calcsize(fmt):
    return sum(sz for c, sz in _parse(fmt))
def pack(fmt, *vals):
    items = _parse(fmt)
    out = []
    vi = 0
    for c, sz in items:
        if c == 'x':
            out.extend([0] * sz)
            continue
        v = vals[vi]; vi += 1
        if c == 's':
            bs = list(v)[:sz]
            out.extend(bs + [0] * (sz - len(bs)))
        elif c == '?':
            out.append(1 if v else 0)
        elif c == 'c':
            if len(v) != 1: raise error('char format requires a bytes object of length 1')
            out.append(v[0])
        else:
            if not isinstance(v, int): raise error('required argument is not an integer')
            bits = 8 * sz
            if c in _SIGNED:
                if not (-(1 << (bits - 1)) <= v < (1 << (bits - 1))): raise error('argument out of range')
                if v < 0: v += 1 << bits
            else:
                if not (0 <= v < (1 << bits)): raise error('argument out of range')
            for i in range(sz):
                out.append((v // (256 ** i)) % 256)
    if vi != len(vals): raise error('pack expected %d items' % vi)
    return bytes(out)
def unpack(fmt, buf):
    items = _parse(fmt)
    if len(buf) != sum(sz for c, sz in items):
        raise error('unpack requires a buffer of %d bytes' % sum(sz for c, sz in items))
    out = []
    pos = 0
    for c, sz in items:
        chunk = buf[pos:pos + sz]; pos += sz
        if c == 'x': continue
        if c == 's': out.append(bytes(chunk))
        elif c == '?': out.append(chunk[0] != 0)
        elif c == 'c': out.append(bytes(chunk))
        else:
            v = 0
            for i in range(sz):
                v += chunk[i] * (256 ** i)
            if c in _SIGNED and v >= 1 << (8 * sz - 1): v -= 1 << (8 * sz)
            out.append(v)
    return tuple(out)
class Struct:
    def __init__(self, fmt): self.format = fmt; self.size = calcsize(fmt)
    def pack(self, *v): return pack(self.format, *v)
    def unpack(self, b): return unpack(self.format, b)
