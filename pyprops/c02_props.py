"""C02 contract (Python half) for CrossHair: TableCollection.tree_sequence() is the Python gate in front of the C
validity check.  It may build an index only when there is none; an index that is present (stale or user supplied) must
reach the C check untouched, which is what rejects it."""
import tskit

_loaded = []


def _fake_load_tables(tables, **kwargs):
    _loaded.append(tables)
    return ("tree sequence of", tables)


# the C constructor is the other half of the check (decided by the C jobs)
tskit.TreeSequence.load_tables = staticmethod(_fake_load_tables)


class FakeTables:
    tree_sequence = tskit.TableCollection.tree_sequence

    def __init__(self, indexed):
        self.indexed = indexed
        self.built = 0

    def has_index(self):
        return self.indexed

    def build_index(self):
        self.built += 1
        self.indexed = True


def tree_sequence_builds_an_index_only_when_absent(indexed: bool) -> bool:
    """
    post: _
    """
    del _loaded[:]
    t = FakeTables(indexed)
    r = t.tree_sequence()
    return t.built == (0 if indexed else 1) and _loaded == [t] and r == ("tree sequence of", t)
