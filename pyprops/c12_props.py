"""C12 contracts for CrossHair: the real tskit.metadata struct codec (closure-built encoders/decoders,
property ordering, default filling) with `struct` replaced by the pure-Python pystruct model."""
import os
from typing import List, Optional

import pystruct
from tskit import metadata as md

if not os.environ.get('VERIF_REPLAY_REAL'):
    md.struct = pystruct


def S(props, **top):
    d = {"codec": "struct", "type": "object", "properties": props}
    d.update(top)
    return md.MetadataSchema(d)


INT_FORMATS = ["b", "B", "h", "H", "i", "I", "l", "L", "q", "Q"]
INT_SIZE = {"b": 1, "B": 1, "h": 2, "H": 2, "i": 4, "I": 4, "l": 4, "L": 4, "q": 8, "Q": 8}
INT_SCHEMAS = [S({"x": {"type": "integer", "binaryFormat": f}}) for f in INT_FORMATS]


def _rng(f):
    bits = 8 * INT_SIZE[f]
    return (-(1 << (bits - 1)), (1 << (bits - 1)) - 1) if f.islower() else (0, (1 << bits) - 1)


def _int_case(k, v):
    f = INT_FORMATS[k]
    lo, hi = _rng(f)
    sch = INT_SCHEMAS[k]
    try:
        enc = sch.encode_row({"x": v})
    except Exception:
        return not (lo <= v <= hi)
    if not (lo <= v <= hi):
        return False
    return len(enc) == INT_SIZE[f] and sch.decode_row(enc) == {"x": v}


def integer_formats_narrow(k: int, v: int) -> bool:
    """
    1- and 2-byte integer formats, every value: in-range values round-trip in the declared width; others are rejected.
    pre: 0 <= k <= 3
    pre: -32771 <= v <= 65538
    post: _
    """
    return _int_case(k, v)


def integer_formats_wide(k: int, edge: int, d: int) -> bool:
    """
    4- and 8-byte formats around their range boundaries and zero (value = boundary + d).
    pre: 4 <= k <= 9
    pre: 0 <= edge <= 2
    pre: -3 <= d <= 3
    post: _
    """
    lo, hi = _rng(INT_FORMATS[k])
    return _int_case(k, (lo, 0, hi)[edge] + d)


def selfcheck():
    """The pystruct stand-in agrees with the real struct module on boundary values of every format used."""
    import struct
    bad = []
    for f in INT_FORMATS:
        lo, hi = _rng(f)
        for v in (lo, lo + 1, -1, 0, 1, 255, 256, hi - 1, hi):
            if lo <= v <= hi:
                a, b = struct.pack("<" + f, v), pystruct.pack("<" + f, v)
                if a != b or struct.unpack("<" + f, a) != pystruct.unpack("<" + f, b):
                    bad.append((f, v))
        for v in (lo - 1, hi + 1):
            try:
                struct.pack("<" + f, v)
                bad.append((f, v, 'real accepted'))
            except struct.error:
                pass
            try:
                pystruct.pack("<" + f, v)
                bad.append((f, v, 'model accepted'))
            except pystruct.error:
                pass
    for fmt, vals in (("<3s", (b"ab",)), ("<3s", (b"abcd",)), ("<?", (True,)), ("<c", (b"x",)), ("2x", ()), ("<H2xb", (7, -3))):
        if struct.pack(fmt, *vals) != pystruct.pack(fmt, *vals) or struct.calcsize(fmt) != pystruct.calcsize(fmt):
            bad.append((fmt, vals))
        if struct.unpack(fmt, struct.pack(fmt, *vals)) != pystruct.unpack(fmt, pystruct.pack(fmt, *vals)):
            bad.append((fmt, vals, 'unpack'))
    try:
        struct.unpack("<H", b"a")
    except struct.error as e:
        r = str(e)
    try:
        pystruct.unpack("<H", b"a")
    except pystruct.error as e:
        m = str(e)
    if ("unpack requires a buffer" in r) != ("unpack requires a buffer" in m):
        bad.append('short buffer message')
    print("SELFCHECK", "OK" if not bad else bad)
    return not bad


# --- ordering by (index, name) -----------------------------------------------------------
def _order_schema(ia, ib, ic):
    # declared in reverse alphabetical order, so that neither declaration order nor name order alone gives the layout
    return S({
        "c": {"type": "integer", "binaryFormat": "b", "index": ic},
        "b": {"type": "integer", "binaryFormat": "H", "index": ib},
        "a": {"type": "integer", "binaryFormat": "B", "index": ia},
    })


# only some properties carry an index (the others count as index 0)
PARTIAL_INDEX = S({"c": {"type": "integer", "binaryFormat": "b"}, "b": {"type": "integer", "binaryFormat": "H", "index": 1},
                   "a": {"type": "integer", "binaryFormat": "B"}})


ORDER_CASES = [(ia, ib, ic) for ia in (0, 1, 2) for ib in (0, 1, 2) for ic in (0, 1, 2)]
ORDER_SCHEMAS = [_order_schema(*t) for t in ORDER_CASES]
NO_INDEX_SCHEMA = S({"b": {"type": "integer", "binaryFormat": "H"}, "a": {"type": "integer", "binaryFormat": "B"},
                     "c": {"type": "integer", "binaryFormat": "b"}})


def layout_follows_index_then_name(case: int, a: int, b: int, c: int) -> bool:
    """
    The struct encoding lays the fields out sorted by (index, name); a stable sort, ties broken by name.
    pre: 0 <= case <= 28
    pre: 0 <= a <= 255 and 0 <= b <= 65535 and -128 <= c <= 127
    post: _
    """
    obj = {"a": a, "b": b, "c": c}
    if case == 27:
        sch, idx = NO_INDEX_SCHEMA, (0, 0, 0)
    elif case == 28:
        sch, idx = PARTIAL_INDEX, (0, 1, 0)
    else:
        sch, idx = ORDER_SCHEMAS[case], ORDER_CASES[case]
    enc = sch.encode_row(obj)
    fields = {"a": bytes([a]), "b": bytes([b % 256, b // 256]), "c": bytes([c % 256])}
    order = sorted("abc", key=lambda k: (idx["abc".index(k)], k))
    want = b"".join(fields[k] for k in order)
    return enc == want and sch.decode_row(enc) == obj and len(enc) == 4


# --- arrays ----------------------------------------------------------------------------------
LEN_FORMATS = ["B", "H", "I", "L", "Q"]
ARRAY_SCHEMAS = [S({"v": {"type": "array", "items": {"type": "integer", "binaryFormat": "h"}, "arrayLengthFormat": f}})
                 for f in LEN_FORMATS]
ARRAY_DEFAULT_LEN = S({"v": {"type": "array", "items": {"type": "integer", "binaryFormat": "h"}}})


def array_length_prefix(k: int, v: List[int]) -> bool:
    """
    Arrays are written as a length prefix of the declared width (default L) followed by the elements.
    pre: 0 <= k <= 5
    pre: len(v) <= 3 and all(-32768 <= x <= 32767 for x in v)
    post: _
    """
    sch = ARRAY_DEFAULT_LEN if k == 5 else ARRAY_SCHEMAS[k]
    width = 4 if k == 5 else INT_SIZE[LEN_FORMATS[k]]
    enc = sch.encode_row({"v": v})
    if len(enc) != width + 2 * len(v):
        return False
    if enc[0] != len(v) or any(enc[i] != 0 for i in range(1, width)):
        return False
    for i, x in enumerate(v):
        u = x % 65536
        if enc[width + 2 * i] != u % 256 or enc[width + 2 * i + 1] != u // 256:
            return False
    return sch.decode_row(enc) == {"v": v}


FIXED_ARRAY = S({"v": {"type": "array", "length": 2, "items": {"type": "integer", "binaryFormat": "B"}},
                 "t": {"type": "integer", "binaryFormat": "B"}})


def fixed_length_array(v: List[int], t: int) -> bool:
    """
    A fixed-length array has no prefix; any other length is rejected.
    pre: len(v) <= 3 and all(0 <= x <= 255 for x in v)
    pre: 0 <= t <= 255
    post: _
    """
    try:
        enc = FIXED_ARRAY.encode_row({"v": v, "t": t})
    except ValueError:
        return len(v) != 2
    return len(v) == 2 and enc == bytes([t, v[0], v[1]]) and FIXED_ARRAY.decode_row(enc) == {"v": v, "t": t}


EXHAUST = S({"h": {"type": "integer", "binaryFormat": "B", "index": 0},
             "v": {"type": "array", "noLengthEncodingExhaustBuffer": True, "index": 1,
                   "items": {"type": "integer", "binaryFormat": "H"}}})


def exhaust_buffer_array(h: int, v: List[int]) -> bool:
    """
    pre: 0 <= h <= 255
    pre: len(v) <= 3 and all(0 <= x <= 65535 for x in v)
    post: _
    """
    enc = EXHAUST.encode_row({"h": h, "v": v})
    return len(enc) == 1 + 2 * len(v) and enc[0] == h and EXHAUST.decode_row(enc) == {"h": h, "v": v}


# --- nested objects, padding, bool, defaults, null ----------------------------------------------
NESTED = S({
    "flag": {"type": "boolean", "binaryFormat": "?", "index": 1},
    "pad": {"type": "null", "binaryFormat": "2x", "index": 2},
    "inner": {"type": "object", "index": 3, "properties": {
        "p": {"type": "integer", "binaryFormat": "b", "index": 2},
        "q": {"type": "integer", "binaryFormat": "B", "index": 1}}},
    "opt": {"type": "integer", "binaryFormat": "B", "index": 4, "default": 42},
})


def nested_padding_defaults(flag: bool, p: int, q: int, has_opt: bool, opt: int) -> bool:
    """
    Nested objects are laid out in place, padding is zero bytes decoded as None, a missing defaulted key is filled in.
    pre: -128 <= p <= 127 and 0 <= q <= 255 and 0 <= opt <= 255
    post: _
    """
    obj = {"flag": flag, "pad": None, "inner": {"p": p, "q": q}}
    if has_opt:
        obj["opt"] = opt
    enc = NESTED.encode_row(obj)
    want = bytes([1 if flag else 0, 0, 0, q, p % 256, opt if has_opt else 42])
    full = {"flag": flag, "pad": None, "inner": {"p": p, "q": q}, "opt": opt if has_opt else 42}
    return enc == want and NESTED.decode_row(enc) == full


OBJ_OR_NULL = md.MetadataSchema({"codec": "struct", "type": ["object", "null"],
                                 "properties": {"x": {"type": "integer", "binaryFormat": "H"}}})


OBJ_OR_NULL_DEFAULTS = md.MetadataSchema({"codec": "struct", "type": ["object", "null"],
                                          "properties": {"x": {"type": "integer", "binaryFormat": "H", "default": 513}}})


def object_or_null_with_defaults(kind: int, x: int) -> bool:
    """
    None, the empty object (all defaults) and a full object are three different rows.
    pre: 0 <= kind <= 2
    pre: 0 <= x <= 65535
    post: _
    """
    obj = None if kind == 0 else {} if kind == 1 else {"x": x}
    enc = OBJ_OR_NULL_DEFAULTS.encode_row(obj)
    want = None if kind == 0 else {"x": 513} if kind == 1 else {"x": x}
    return (enc == b"") == (kind == 0) and OBJ_OR_NULL_DEFAULTS.decode_row(enc) == want


def object_or_null(is_null: bool, x: int) -> bool:
    """
    pre: 0 <= x <= 65535
    post: _
    """
    obj = None if is_null else {"x": x}
    enc = OBJ_OR_NULL.encode_row(obj)
    return (enc == b"") == is_null and OBJ_OR_NULL.decode_row(enc) == obj


# --- strings ------------------------------------------------------------------------------------
STR_PLAIN = S({"s": {"type": "string", "binaryFormat": "3s"}})
STR_NT = S({"s": {"type": "string", "binaryFormat": "3s", "nullTerminated": True}})


def fixed_width_strings(c0: int, c1: int, c2: int, c3: int, n: int, nt: bool) -> bool:
    """
    Ns strings: shorter values are zero padded (and cut at the first NUL when nullTerminated), longer ones truncated.
    pre: 1 <= c0 <= 126 and 1 <= c1 <= 126 and 1 <= c2 <= 126 and 1 <= c3 <= 126
    pre: 0 <= n <= 4
    post: _
    """
    s = "".join(chr(c) for c in [c0, c1, c2, c3][:n])
    sch = STR_NT if nt else STR_PLAIN
    enc = sch.encode_row({"s": s})
    raw = [c0, c1, c2, c3][:n][:3]
    want = bytes(raw + [0] * (3 - len(raw)))
    if enc != want:
        return False
    dec = sch.decode_row(enc)["s"]
    if nt:
        return dec == s[:3]
    return dec == s[:3] + "\x00" * (3 - len(raw))


CHAR = S({"c": {"type": "string", "binaryFormat": "c"}, "n": {"type": "integer", "binaryFormat": "B"}})


def char_format(c: int, n: int) -> bool:
    """
    pre: 1 <= c <= 126 and 0 <= n <= 255
    post: _
    """
    enc = CHAR.encode_row({"c": chr(c), "n": n})
    return enc == bytes([c, n]) and CHAR.decode_row(enc) == {"c": chr(c), "n": n}
