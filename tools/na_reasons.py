NA_REASONS = {
    'C08': 'statistics: floating-point results and thread schedules are the subject; the engine has no floating-point '
           'reasoning beyond integer-valued doubles and no concurrency; the narrow integer general_stat fragment was not '
           'built in this round, so nothing is claimed',
    'C11': 'keep_intervals/delete_intervals/trim/delete_sites are numpy array programs over C-extension tables (CrossHair '
           'realises every value at those boundaries); the C mechanisms (split_edges, delete_older, extend_haplotypes) are '
           'encodable with llsym but no harness has been built yet',
    'C17': 'parse_* / dump_text convert symbolic strings to int/float and Base64 through C-implemented codecs which '
           'CrossHair realises (inconclusive on str->float and binascii); no sound check could be built in this round',
}
