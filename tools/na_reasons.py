NA_REASONS = {
    'C17': 'parse_* / dump_text convert symbolic strings to int/float and Base64 through C-implemented codecs which '
           'CrossHair realises (inconclusive on str->float and binascii); no sound check could be built in this round',
}
