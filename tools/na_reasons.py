NA_REASONS = {
    'C08': 'statistics: floating-point results and thread schedules are the subject; the engine has no floating-point '
           'reasoning beyond integer-valued doubles and no concurrency; the narrow integer general_stat fragment was not '
           'built in this round, so nothing is claimed',
    'C17': 'parse_* / dump_text convert symbolic strings to int/float and Base64 through C-implemented codecs which '
           'CrossHair realises (inconclusive on str->float and binascii); no sound check could be built in this round',
}
