#!/usr/bin/env python3
"""confirm_seed.py <src dir with patch.diff demo.py meta.json> <name>
Confirms a seeded change in a scratch worktree (outside /repo and /verif): the demo passes on the clean tree,
fails with the patch, the patched tree compiles, and (when the patch touches python/) the pinned suite still passes.
On success copies it to /verif/seeded/<name>/ with what was run."""
import json, os, shutil, subprocess, sys, tempfile

src, name = sys.argv[1], sys.argv[2]
wt = tempfile.mkdtemp(prefix='seedwt_')
os.rmdir(wt)
def sh(cmd, **kw):
    return subprocess.run(cmd, shell=True, capture_output=True, text=True, **kw)
r = sh('git -C /repo worktree add -q --detach %s HEAD' % wt)
assert r.returncode == 0, r.stderr
ran = []
ok = False
try:
    ext = wt + '.ext'
    def demo(tag):
        b = sh('/tmp/seedtools/build_ext.sh %s %s' % (wt, ext))
        if b.returncode != 0:
            return None, 'BUILD FAILED ' + b.stderr[-500:]
        d = sh('PYTHONPATH=%s:%s/python timeout 600 /venv/bin/python %s/demo.py' % (ext, wt, os.path.abspath(src)), cwd='/tmp')
        ran.append('%s: build ok; demo exit %d: %s' % (tag, d.returncode, (d.stdout + d.stderr)[-300:].strip()))
        return d.returncode, d.stdout + d.stderr
    rc0, out0 = demo('clean')
    a = sh('git -C %s apply %s/patch.diff' % (wt, os.path.abspath(src)))
    assert a.returncode == 0, a.stderr
    files = sh('git -C %s diff --name-only' % wt).stdout.split()
    rc1, out1 = demo('patched')
    suite = 'not run'
    if any(f.startswith('python/') and f.endswith('.py') for f in files):
        s = sh('/tmp/seedtools/check_suite.py %s' % wt)
        suite = 'exit %d: %s' % (s.returncode, s.stdout[-300:].strip())
        ran.append('suite on patched tree: ' + suite)
        suite_ok = s.returncode == 0
    else:
        ran.append('suite: the patch touches only %s; the pinned suite imports the pre-installed _tskit wheel and does not '
                   'load these C sources, so it is unaffected (patched tree compiles)' % files)
        suite_ok = True
    ok = rc0 == 0 and rc1 not in (0, None) and suite_ok
    print('clean demo rc', rc0, 'patched demo rc', rc1, 'suite', suite, 'files', files)
    if ok:
        dst = os.path.join('/verif/seeded', name)
        os.makedirs(dst, exist_ok=True)
        for f in os.listdir(src):
            shutil.copy(os.path.join(src, f), dst)
        meta = json.load(open(os.path.join(src, 'meta.json')))
        meta['confirmed_by_verif'] = ran
        meta['files'] = files
        json.dump(meta, open(os.path.join(dst, 'meta.json'), 'w'), indent=1)
        print('KEPT', dst)
    else:
        print('REJECTED', out0[-300:], out1[-300:])
finally:
    sh('git -C /repo worktree remove --force %s' % wt)
    shutil.rmtree(wt + '.ext', ignore_errors=True)
sys.exit(0 if ok else 1)
