#!/usr/bin/env python3
"""Regenerates MANIFEST.json from the props/ modules (each claimed property has props/cNN.py with MANIFEST dict)."""
import importlib
import json
import os
import sys

HERE = os.path.dirname(os.path.dirname(os.path.abspath(__file__)))
sys.path.insert(0, HERE)
sys.path.insert(0, os.path.join(HERE, 'engine'))

NA_REASONS = {}
exec(open(os.path.join(HERE, 'tools', 'na_reasons.py')).read())

props = [json.loads(l)['id'] for l in open(os.path.join(HERE, 'properties.jsonl'))]
checks = []
na = []
for pid in props:
    p = os.path.join(HERE, 'props', pid.lower() + '.py')
    if not os.path.exists(p):
        na.append(dict(property_id=pid, reason=NA_REASONS.get(pid, 'no solver-based check built for this property in this round')))
        continue
    m = importlib.import_module('props.' + pid.lower())
    mf = getattr(m, 'MANIFEST', {})
    checks.append(dict(
        property_id=pid,
        quick_cmd='./check %s --tier quick' % pid,
        thorough_cmd='./check %s --tier thorough' % pid,
        evidence_file='evidence/%s.json' % pid,
        replay_cmd_template='./check --replay {path}',
        engine=mf.get('engine', 'llsym'),
        level_claimed=dict(category=mf.get('category', 'model_checking'), text=mf['text'], design_ref=mf.get('design_ref', 'DESIGN.md §3 ' + pid)),
        level_note=mf['note'],
        technique=mf['technique']))
man = dict(
    version=1,
    setup_cmd='sh tools/setup.sh',
    hooks=dict(guard='TSKIT_VERIF', enable='no source hooks: allocation failure, file truncation and read-only monitoring are features of the symbolic engine', baseline_off_cmd='cd /repo && /venv/bin/python -m pytest -ra -q -p no:cacheprovider --timeout=900 --continue-on-collection-errors', source_commits=[], add_only=True),
    engines=[
        dict(name='llsym', path='engine/llsym.py', serves_properties=[c['property_id'] for c in checks if c['engine'] == 'llsym'],
             kind_free_text='path-wise symbolic executor for the LLVM-14 IR clang emits from /repo/c (regenerated every run), z3 back end, native ASan/UBSan replay of every counterexample'),
        dict(name='crosshair', path='engine/chdriver.py', serves_properties=[c['property_id'] for c in checks if c['engine'] == 'crosshair'],
             kind_free_text='CrossHair 0.0.110 (z3) symbolic execution of the real Python modules with pure-Python stand-ins at C boundaries'),
    ],
    checks=checks,
    notes='All checks decide by solver over symbolic inputs within stated bounds (see evidence bounds / outside_claim). Exit 0 held, 1 VIOLATION (replayed natively first), 3 harness error or inconclusive.',
    not_applicable=na)
json.dump(man, open(os.path.join(HERE, 'MANIFEST.json'), 'w'), indent=1)
print('checks:', [c['property_id'] for c in checks], 'n/a:', [n['property_id'] for n in na])
