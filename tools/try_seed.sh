#!/bin/sh
# try_seed.sh <seeded name> <PROPERTY> [tier] [extra check args]
# Runs the check against a scratch worktree of /repo with the seeded patch applied (VERIF_REPO), leaving /repo and
# /verif/evidence untouched.  Prints the exit code and the first violations.
name=$1; prop=$2; tier=${3:-quick}; shift; shift; [ $# -gt 0 ] && shift
wt=$(mktemp -d /tmp/tryseed_XXXXXX); rmdir $wt
git -C /repo worktree add -q --detach $wt HEAD || exit 9
git -C $wt apply /verif/seeded/$name/patch.diff || { git -C /repo worktree remove --force $wt; exit 9; }
mkdir -p /tmp/tryout_$name
VERIF_REPO=$wt VERIF_OUT=/tmp/tryout_$name /verif/check $prop --tier $tier "$@" > /tmp/try_$name.log 2>&1
rc=$?
git -C /repo worktree remove --force $wt
echo "seed $name on $prop ($tier): exit $rc, $(grep -c '^VIOLATION' /tmp/try_$name.log) violation lines"
grep "^VIOLATION" -A1 /tmp/try_$name.log | head -4 | cut -c1-400
