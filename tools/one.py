import sys, time, json, tempfile
sys.path.insert(0,'/verif/engine'); sys.path.insert(0,'/verif')
from engine import driver, cbuild
import llir, llsym
sc = tempfile.mkdtemp()
lib = cbuild.build_lib_ir(sc)
h, entry = sys.argv[1], sys.argv[2]
defs = dict(kv.split('=') for kv in sys.argv[3:])
ll = cbuild.link_harness_ir(sc, lib, '/verif/harness/'+h, defs, 'x')
mod = llir.Module().parse(ll)
ex = llsym.Executor(mod, verbose=True)
t0=time.time()
try:
    ex.run('@'+entry, timeout=float(__import__("os").environ.get("ONE_TIMEOUT","120")))
finally:
    print(ex.stats)
    print(ex.reach_counts)
    for f in ex.findings[:10]: print(f)
    import shutil; shutil.rmtree(sc, True)
