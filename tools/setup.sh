#!/bin/sh
# Offline setup: overlay venv of /venv with crosshair-tool from the local wheelhouse (for the Python-level checks).
set -e
cd "$(dirname "$0")/.."
if [ ! -x .venv/bin/crosshair ]; then
    rm -rf .venv
    /venv/bin/python -m venv .venv
    SP=$(.venv/bin/python -c "import site; print(site.getsitepackages()[0])")
    echo "import site; site.addsitedir('/venv/lib/python3.12/site-packages')" > "$SP/verif_overlay.pth"
    .venv/bin/pip install -q --no-index --find-links /opt/veriftools/wheels crosshair-tool
fi
.venv/bin/python -c "import crosshair, z3; print('crosshair ok')"
/opt/veriftools/pyvenv/bin/python -c "import z3; print('z3', z3.get_version_string())"
clang --version | head -1
