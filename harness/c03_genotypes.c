/* C03: decoded genotypes follow nearest-mutation inheritance and the
 * missing-data rule, in every decode order, for default and explicit sample
 * lists (sample-list and traversal code paths), with alleles[0] ancestral. */
#define H_EXTRA_ROWS
#define H_COMPUTE_MUTATION_PARENTS
#include "treegen.h"

#ifndef NM
#define NM 2
#endif

static h_tables_t T;
static tsk_id_t msite[NM], mnode[NM];
static int mstate[NM]; /* index into states[] */
static const char *states[3] = { "A", "C", "" }; /* "A" is also the ancestral state: silent mutations */
static const int state_len[3] = { 1, 1, 0 };

static void
h_extra_rows(tsk_table_collection_t *t, h_tables_t *Tp)
{
    int j, ret;
    char nm[16];
    (void) Tp;
    for (j = 0; j < NM; j++) {
        msite[j] = sym_choice(sym_nm(nm, "ms", j), j == 0 ? 0 : msite[j - 1], NS - 1);
        mnode[j] = sym_choice(sym_nm(nm, "mn", j), 0, NN - 1);
        /* first mutation: "C" or ""; later ones: "A" (back to the ancestral allele) or "C" */
        mstate[j] = j == 0 ? 1 + sym_choice(sym_nm(nm, "md", j), 0, 1) : sym_choice(sym_nm(nm, "md", j), 0, 1);
        ret = tsk_mutation_table_add_row(&t->mutations, msite[j], mnode[j], -1, TSK_UNKNOWN_TIME, states[mstate[j]],
            (tsk_size_t) state_len[mstate[j]], NULL, 0);
        sym_assume(ret == j);
    }
}

/* expected state index (0..2, ancestral = 0) of node u at site s; -1 = missing */
static int
expected(int s, tsk_id_t u, int impute)
{
    double x = site_pos[s];
    tsk_id_t v = u;
    int k, j, on_u = 0;
    for (j = 0; j < NM; j++) {
        on_u |= msite[j] == s && mnode[j] == u;
    }
    if (!impute && (T.flags[u] & TSK_NODE_IS_SAMPLE) && !on_u && h_parent_at(&T, u, x, NULL) == TSK_NULL
        && h_num_children(&T, u, x) == 0) {
        return -1;
    }
    for (k = 0; k <= NN && v != TSK_NULL; k++) {
        for (j = NM - 1; j >= 0; j--) {
            if (msite[j] == s && mnode[j] == v) {
                return mstate[j]; /* the latest row on the nearest node */
            }
        }
        v = h_parent_at(&T, v, x, NULL);
    }
    return 0;
}

/* user allele lists (NULL terminated); "G" never occurs in the tables */
static const char *ulists[4][5] = { { "C", "A", "", NULL }, { "A", "C", NULL }, { "C", "", NULL }, { "A", "", "C", "G", NULL } };
static const int ulens[4] = { 3, 2, 2, 4 };
static int user_list = -1;

static void
check_variant(const tsk_variant_t *var, int s, const tsk_id_t *nodes, int n, int impute)
{
    int j, e, any_missing = 0;
    sym_assert(var->site.id == s, "variant is decoded at the requested site");
    if (user_list >= 0) {
        sym_assert(var->num_alleles == (tsk_size_t) ulens[user_list], "with a user allele list the alleles are that list");
        for (j = 0; j < ulens[user_list]; j++) {
            sym_assert(var->allele_lengths[j] == strlen(ulists[user_list][j])
                           && (var->allele_lengths[j] == 0 || var->alleles[j][0] == ulists[user_list][j][0]),
                "with a user allele list the alleles are that list, in its order");
        }
    } else {
    sym_assert(var->num_alleles >= 1 && var->allele_lengths[0] == 1 && var->alleles[0][0] == 'A', "alleles[0] is the ancestral state");
    }
    sym_assert(var->num_samples == (tsk_size_t) n, "one genotype per requested node");
    for (j = 0; j < n; j++) {
        int32_t g = var->genotypes[j];
        e = expected(s, nodes[j], impute);
        if (e == -1) {
            any_missing = 1;
            sym_assert(g == TSK_MISSING_DATA, "an isolated sample with no mutation directly above it is missing");
        } else {
            sym_assert(g >= 0 && (tsk_size_t) g < var->num_alleles, "genotype indexes the allele list");
            sym_assert(var->allele_lengths[g] == (tsk_size_t) state_len[e]
                           && (state_len[e] == 0 || var->alleles[g][0] == states[e][0]),
                "decoded allele is the derived state of the nearest mutation above, else the ancestral state");
        }
    }
    sym_assert(var->has_missing_data == (any_missing != 0), "has_missing_data");
}

static void
run_variant(tsk_treeseq_t *ts, int mode, int impute, int order)
{
    tsk_variant_t var, cp;
    tsk_id_t nodes[MAXN];
    const tsk_id_t *req = NULL;
    int ret, n = 0, u, k, nonsample = 0, decoded = 0;
    static const int orders[2][3] = { { 0, 1, 0 }, { 1, 0, -1 } };

    if (mode == 0) {
        for (u = 0; u < NN; u++) {
            if (T.flags[u] & TSK_NODE_IS_SAMPLE) {
                nodes[n++] = u;
            }
        }
    } else if (mode == 1) {
        /* explicit list in reverse order, all nodes (samples and non-samples) */
        for (u = NN - 1; u >= 0; u--) {
            nodes[n++] = u;
        }
        req = nodes;
    } else {
        /* explicit list of the sample nodes only, reversed: traversal code path with missing data */
        for (u = NN - 1; u >= 0; u--) {
            if (T.flags[u] & TSK_NODE_IS_SAMPLE) {
                nodes[n++] = u;
            }
        }
        req = nodes;
    }
    for (k = 0; k < n; k++) {
        nonsample |= !(T.flags[nodes[k]] & TSK_NODE_IS_SAMPLE);
    }
    ret = tsk_variant_init(&var, ts, req, (tsk_size_t) n, user_list >= 0 ? ulists[user_list] : NULL, impute ? TSK_ISOLATED_NOT_MISSING : 0);
    if (req != NULL && nonsample && !impute) {
        /* documented: non-sample nodes can only be decoded with isolated_as_missing=False */
        sym_assert(ret == TSK_ERR_MUST_IMPUTE_NON_SAMPLES, "non-sample nodes require isolated_as_missing=False");
        tsk_variant_free(&var);
        sym_reach("must-impute");
        return;
    }
    sym_assert(ret == 0, "variant_init");
    for (k = 0; k < 3; k++) {
        int s = orders[order][k];
        if (s < 0 || s >= NS) {
            continue;
        }
        ret = tsk_variant_decode(&var, s, 0);
        if (user_list >= 0) {
            /* every allele occurring at the site (ancestral state and every derived state) must be in the user list */
            int need[3] = { 1, 0, 0 }, a, q, all_found = 1, j2;
            for (j2 = 0; j2 < NM; j2++) {
                if (msite[j2] == s) {
                    need[mstate[j2]] = 1;
                }
            }
            for (a = 0; a < 3; a++) {
                int found = 0;
                for (q = 0; q < ulens[user_list]; q++) {
                    found |= strcmp(ulists[user_list][q], states[a]) == 0;
                }
                all_found &= !need[a] || found;
            }
            if (!all_found) {
                sym_assert(ret < 0, "an allele missing from the user list is an error");
                sym_reach("allele-not-found");
                decoded = 0;
                continue;
            }
        }
        sym_assert(ret == 0, "decode");
        decoded = 1;
        check_variant(&var, s, nodes, n, impute);
    }
    if (!decoded) {
        /* the last decode failed (or there is no site): the variant holds no defined genotypes to copy */
        tsk_variant_free(&var);
        return;
    }
    ret = tsk_variant_restricted_copy(&var, &cp);
    sym_assert(ret == 0, "restricted_copy");
    for (k = 0; k < n; k++) {
        sym_assert(cp.genotypes[k] == var.genotypes[k], "copy has the same genotypes");
    }
    sym_assert(cp.num_alleles == var.num_alleles && cp.has_missing_data == var.has_missing_data, "copy has the same alleles");
    tsk_variant_free(&cp);
    tsk_variant_free(&var);
}

int
main_c03(void)
{
    tsk_table_collection_t t;
    tsk_treeseq_t ts;
    int order;

    if (h_build_treeseq(&t, &ts, &T) != 0) {
        return 0;
    }
    order = sym_choice("order", 0, 1);
#ifdef USER_ALLELES
    user_list = sym_choice("ual", 0, 3);
    run_variant(&ts, 0, 0, order);
    run_variant(&ts, 1, 1, order);
    tsk_treeseq_free(&ts);
    tsk_table_collection_free(&t);
    SYM_END();
    return 0;
#endif
    /* (sample list, isolated_as_missing) combinations, one after the other on the same tree sequence */
    run_variant(&ts, 0, 0, order);
    run_variant(&ts, 0, 1, order);
    run_variant(&ts, 1, 1, order);
    run_variant(&ts, 2, 0, order);
    run_variant(&ts, 1, 0, order);
    tsk_treeseq_free(&ts);
    tsk_table_collection_free(&t);
    SYM_END();
    return 0;
}
