/* C20: map_mutations returns a most-parsimonious placement that reproduces
 * the data.  Trees: every one-tree sequence class from treegen.h (polytomies,
 * unary nodes, multiple roots, internal and isolated samples); genotypes per
 * sample enumerated over {-1,0,1,2}; ancestral state free or fixed.
 * Oracle: replay of the returned placement + an independent Sankoff cost table. */
#include "treegen.h"

#ifdef HIGH_ALLELE
#define NA (HIGH_ALLELE + 1)
#else
#define NA 3   /* alphabet {0,1,2} */
#endif
#define INF 1000

static h_tables_t T;
static h_otree_t O;
static int32_t geno[MAXN]; /* per node: observed state, -1 missing, -2 not a sample */
static int cost[MAXN + 1][NA];

static void
sankoff(int u)
{
    int a, b, c, best;
    for (c = 0; c < NN; c++) {
        if (O.parent[c] == u) {
            sankoff(c);
        }
    }
    for (a = 0; a < NA; a++) {
        int tot = 0;
        if (geno[u] >= 0 && geno[u] != a) {
            cost[u][a] = INF;
            continue;
        }
        for (c = 0; c < NN; c++) {
            if (O.parent[c] == u) {
                best = INF;
                for (b = 0; b < NA; b++) {
                    int v = cost[c][b] + (a != b);
                    if (v < best) {
                        best = v;
                    }
                }
                tot += best;
            }
        }
        cost[u][a] = tot > INF ? INF : tot;
    }
}

int
main_c20(void)
{
    tsk_table_collection_t t;
    tsk_treeseq_t ts;
    tsk_tree_t tree;
    int32_t genotypes[MAXN], anc = 0;
    tsk_state_transition_t *tr = NULL;
    tsk_size_t ntr = 0;
    int ret, u, j, k, ns = 0, nonmissing = 0, fixed, a, b, best, total, minimum;
    char nm[16];
    int state_at[MAXN]; /* node -> index of transition on it, or -1 */

    if (h_build_treeseq(&t, &ts, &T) != 0) {
        return 0;
    }
    ret = tsk_tree_init(&tree, &ts, 0);
    sym_assume(ret == 0);
    ret = tsk_tree_first(&tree);
    sym_assume(ret == TSK_TREE_OK);
    h_oracle_tree(&T, 0, &O);
    for (u = 0; u < NN; u++) {
        geno[u] = -2;
        if (T.flags[u] & TSK_NODE_IS_SAMPLE) {
            geno[u] = sym_choice(sym_nm(nm, "g", ns), -1, 2);
#ifdef HIGH_ALLELE
            /* relabel allele 2 as allele HIGH_ALLELE (e.g. 40, 63): the 64-bit set arithmetic beyond bit 31 */
            if (geno[u] == 2) {
                geno[u] = HIGH_ALLELE;
            }
#endif
            genotypes[ns++] = geno[u];
            nonmissing += geno[u] >= 0;
        }
    }
    fixed = sym_choice("fixed", 0, 3); /* 0: free ancestral state; k>0: fixed to k-1 */
    anc = fixed ? fixed - 1 : 77;
    ret = tsk_tree_map_mutations(&tree, genotypes, NULL, fixed ? TSK_MM_FIXED_ANCESTRAL_STATE : 0, &anc, &ntr, &tr);
    if (nonmissing == 0) {
        sym_assert(ret == TSK_ERR_GENOTYPES_ALL_MISSING, "all-missing genotypes are reported");
        sym_reach("all-missing");
    } else {
        sym_assert(ret == 0, "map_mutations succeeds");
        sym_assert(anc >= 0 && anc < NA && (!fixed || anc == fixed - 1), "ancestral state is an allele (the fixed one when given)");
        /* (iii) order and parent links */
        for (u = 0; u < NN; u++) {
            state_at[u] = -1;
        }
        for (j = 0; j < (int) ntr; j++) {
            tsk_id_t v, p = -1;
            sym_assert(tr[j].node >= 0 && tr[j].node < NN && state_at[tr[j].node] == -1, "at most one transition per node");
            /* nearest transition strictly above */
            v = O.parent[tr[j].node];
            for (k = 0; k <= NN && v != TSK_NULL; k++) {
                if (state_at[v] != -1) {
                    p = state_at[v];
                    break;
                }
                v = O.parent[v];
            }
            /* all transitions above must already be listed (parents before children) */
            v = O.parent[tr[j].node];
            for (k = 0; k <= NN && v != TSK_NULL; k++) {
                int m;
                for (m = j + 1; m < (int) ntr; m++) {
                    sym_assert(tr[m].node != v, "transitions are listed parents before children");
                }
                v = O.parent[v];
            }
            sym_assert(tr[j].parent == p, "transition parent is the nearest transition above");
            sym_assert(tr[j].state != (p == -1 ? anc : tr[p].state), "a transition changes the state");
            state_at[tr[j].node] = j;
            /* (iv) on a unary chain the transition sits on the oldest node */
            v = O.parent[tr[j].node];
            if (v != TSK_NULL) {
                sym_assert(!(O.nchild[v] == 1 && geno[v] == -2), "a transition is placed on the oldest node of a unary chain");
            }
        }
        /* (i) replay reproduces every non-missing observation */
        for (u = 0; u < NN; u++) {
            if (geno[u] >= 0) {
                tsk_id_t v = u;
                int s = anc;
                for (k = 0; k <= NN && v != TSK_NULL; k++) {
                    if (state_at[v] != -1) {
                        s = tr[state_at[v]].state;
                        break;
                    }
                    v = O.parent[v];
                }
                sym_assert(s == geno[u], "the placement reproduces every non-missing genotype");
            }
        }
        /* (ii) minimum number of state changes over all reconstructions */
        for (u = 0; u < NN; u++) {
            if (O.parent[u] == TSK_NULL && O.nsamp[u] > 0) {
                sankoff(u);
            }
        }
        minimum = INF;
        for (a = 0; a < NA; a++) {
            if (fixed && a != fixed - 1) {
                continue;
            }
            total = 0;
            for (u = 0; u < NN; u++) {
                if (O.parent[u] == TSK_NULL && O.nsamp[u] > 0) {
                    best = INF;
                    for (b = 0; b < NA; b++) {
                        int v = cost[u][b] + (a != b);
                        if (v < best) {
                            best = v;
                        }
                    }
                    total += best;
                }
            }
            if (total < minimum) {
                minimum = total;
            }
        }
        sym_assert((int) ntr == minimum, "the number of transitions is the minimum over all reconstructions");
    }
    free(tr);
    tsk_tree_free(&tree);
    tsk_treeseq_free(&ts);
    tsk_table_collection_free(&t);
    SYM_END();
    return 0;
}
