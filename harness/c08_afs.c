/* C08 (second narrow claim): tsk_treeseq_allele_frequency_spectrum, site and branch mode, polarised and folded,
 * one or two sample sets (the joint spectrum), span_normalise off, windows [0,b,L] with b symbolic, equals the
 * documented definition (docs/stats.md "Allele frequency spectrum") evaluated naively from the marginal trees.
 * Folded spectra are checked by their defining properties: every cell pair {X, flip X} holds what the unfolded
 * half-weight spectrum holds there, and the upper half is empty. */
#define H_EXTRA_ROWS
#define H_COMPUTE_MUTATION_PARENTS
#define SITE_ANC "AT"
#define SITE_ANC_LEN 2
#include "treegen.h"

#ifndef NM
#define NM 1
#endif
#define MAXCELL 16

static h_tables_t T;
static tsk_id_t msite[NM + 1], mnode[NM + 1];
static int mstate[NM + 1];
static const char *states[3] = { "AT", "A", "C" };
static const int state_len[3] = { 2, 1, 1 };

static void
h_extra_rows(tsk_table_collection_t *t, h_tables_t *Tp)
{
    int j, ret;
    char nm[16];
    (void) Tp;
    for (j = 0; j < NM; j++) {
        msite[j] = sym_choice(sym_nm(nm, "ms", j), j == 0 ? 0 : msite[j - 1], NS - 1);
        mnode[j] = sym_choice(sym_nm(nm, "mn", j), 0, NN - 1);
        mstate[j] = 1 + sym_choice(sym_nm(nm, "md", j), 0, 1);
        ret = tsk_mutation_table_add_row(&t->mutations, msite[j], mnode[j], -1, TSK_UNKNOWN_TIME, states[mstate[j]],
            (tsk_size_t) state_len[mstate[j]], NULL, 0);
        sym_assume(ret == j);
    }
}

static double
overlap(double a, double b, double lo, double hi)
{
    double l = a > lo ? a : lo, r = b < hi ? b : hi;
    return r > l ? r - l : 0;
}

static int
allele_of(int s, tsk_id_t u)
{
    double x = site_pos[s];
    int k, j;
    for (k = 0; k <= NN && u != TSK_NULL; k++) {
        for (j = NM - 1; j >= 0; j--) {
            if (msite[j] == s && mnode[j] == u) {
                return mstate[j];
            }
        }
        u = h_parent_at(&T, u, x, NULL);
    }
    return 0;
}

int
main_c08(void)
{
    tsk_table_collection_t t;
    tsk_treeseq_t ts;
    tsk_tree_t tree;
    tsk_id_t sets[MAXN], samples[MAXN];
    tsk_size_t sizes[2];
    int set_of[MAXN]; /* -1: in no set */
    double win[3], res[2 * MAXCELL], naive[2][MAXCELL];
    int ret, u, w, ns = 0, nsets, pat, mode, polarised, combo, n0, n1, d1, cells, c, k;

    if (h_build_treeseq(&t, &ts, &T) != 0) {
        return 0;
    }
    for (u = 0; u < NN; u++) {
        set_of[u] = -1;
        if (T.flags[u] & TSK_NODE_IS_SAMPLE) {
            samples[ns++] = u;
        }
    }
    if (ns < 2) {
        sym_assume(0);
    }
    /* 0: one set of all samples; 1: one set of all but the first; 2: {first} and {rest} jointly */
    pat = sym_choice("sets", 0, 2);
    nsets = pat == 2 ? 2 : 1;
    k = 0;
    if (pat == 2) {
        sets[k++] = samples[0];
        set_of[samples[0]] = 0;
    }
    for (u = (pat == 0 ? 0 : 1); u < ns; u++) {
        sets[k++] = samples[u];
        set_of[samples[u]] = nsets - 1;
    }
    sizes[0] = pat == 2 ? 1 : (tsk_size_t) k;
    sizes[1] = pat == 2 ? (tsk_size_t) k - 1 : 0;
    n0 = (int) sizes[0];
    n1 = nsets == 2 ? (int) sizes[1] : 0;
    d1 = n1 + 1;
    cells = (n0 + 1) * d1;
    win[0] = 0;
    win[1] = sym_f64_int("b");
    sym_assume(0 < win[1] && win[1] < SEQ_L);
    win[2] = SEQ_L;

    for (combo = 0; combo < (NS > 0 ? 4 : 2); combo++) {
        mode = combo / 2; /* 0 branch, 1 site */
        polarised = combo % 2;
        ret = tsk_treeseq_allele_frequency_spectrum(&ts, (tsk_size_t) nsets, sizes, sets, 2, win,
            (mode == 0 ? TSK_STAT_BRANCH : TSK_STAT_SITE) | (polarised ? TSK_STAT_POLARISED : 0), res);
        sym_assert(ret == 0, "allele_frequency_spectrum succeeds");
        for (w = 0; w < 2; w++) {
            for (c = 0; c < MAXCELL; c++) {
                naive[w][c] = 0;
            }
        }
        /* the unfolded spectrum by definition (weight 1 polarised; 1/2 per allele incl. the ancestral one otherwise) */
        if (mode == 0) {
            ret = tsk_tree_init(&tree, &ts, 0);
            sym_assume(ret == 0);
            for (ret = tsk_tree_first(&tree); ret == TSK_TREE_OK; ret = tsk_tree_next(&tree)) {
                for (u = 0; u < NN; u++) {
                    int cnt[2] = { 0, 0 }, all = 0, s, kk;
                    tsk_id_t v;
                    if (tree.parent[u] == TSK_NULL) {
                        continue;
                    }
                    for (s = 0; s < ns; s++) {
                        for (v = samples[s], kk = 0; kk <= NN && v != TSK_NULL; v = tree.parent[v], kk++) {
                            if (v == u) {
                                all++;
                                if (set_of[samples[s]] >= 0) {
                                    cnt[set_of[samples[s]]]++;
                                }
                                break;
                            }
                        }
                    }
                    if (all > 0 && all < ns) {
                        double bl = T.time[tree.parent[u]] - T.time[u];
                        for (w = 0; w < 2; w++) {
                            naive[w][cnt[0] * d1 + cnt[1]]
                                += overlap(tree.interval.left, tree.interval.right, win[w], win[w + 1]) * bl;
                        }
                    }
                }
            }
            tsk_tree_free(&tree);
        } else {
            int s, a, j;
            for (s = 0; s < NS; s++) {
                w = site_pos[s] < win[1] ? 0 : 1;
                for (a = polarised ? 1 : 0; a < 3; a++) {
                    int cnt[2] = { 0, 0 }, all = 0, present = a == 0;
                    for (j = 0; j < NM; j++) {
                        present |= msite[j] == s && mstate[j] == a;
                    }
                    if (!present) {
                        continue;
                    }
                    for (j = 0; j < ns; j++) {
                        if (allele_of(s, samples[j]) == a) {
                            all++;
                            if (set_of[samples[j]] >= 0) {
                                cnt[set_of[samples[j]]]++;
                            }
                        }
                    }
                    if (all > 0 && all < ns) {
                        naive[w][cnt[0] * d1 + cnt[1]] += polarised ? 1 : 0.5;
                        sym_reach("counted-allele");
                    }
                }
            }
        }
        for (w = 0; w < 2; w++) {
            const double *afs = res + w * cells;
            if (polarised) {
                for (c = 0; c < cells; c++) {
                    sym_assert(afs[c] == naive[w][c], mode == 0 ? "polarised branch AFS cell equals its definition"
                                                                : "polarised site AFS cell equals its definition");
                }
            } else {
                int i0, i1;
                for (i0 = 0; i0 <= n0; i0++) {
                    for (i1 = 0; i1 <= n1; i1++) {
                        int x = i0 * d1 + i1, fx = (n0 - i0) * d1 + (n1 - i1);
                        double got = x == fx ? afs[x] : afs[x] + afs[fx];
                        double want = x == fx ? naive[w][x] : naive[w][x] + naive[w][fx];
                        sym_assert(got == want, mode == 0 ? "folded branch AFS: a cell and its mirror image hold the unfolded mass of both"
                                                          : "folded site AFS: a cell and its mirror image hold the unfolded mass of both");
                        if (2 * (i0 + i1) > n0 + n1) {
                            sym_assert(afs[x] == 0, "folded AFS is empty above the middle frequency");
                        }
                        if (x != fx) {
                            sym_assert(afs[x] == 0 || afs[fx] == 0, "folding sends a cell and its mirror image to one place");
                        }
                    }
                }
            }
        }
    }
    tsk_treeseq_free(&ts);
    tsk_table_collection_free(&t);
    SYM_END();
    return 0;
}
