/* C02: tsk_treeseq_init (the gate behind TableCollection.tree_sequence and
 * tskit.load) accepts a table collection iff it meets the documented
 * requirements of docs/data-model.md.  All checked columns are symbolic with NO
 * validity assumptions; the oracle `spec_*` below is an independent
 * transcription of the documentation, requirement by requirement.
 *
 * Variants (compile-time): which tables are free and which are a fixed valid
 * baseline.  FREE_EDGES / FREE_SITES / FREE_REFS.
 */
#include "common.h"

#ifndef NN
#define NN 3
#endif
#ifndef NE
#define NE 2
#endif
#ifndef NS
#define NS 0
#endif
#ifndef NM
#define NM 0
#endif
#ifndef NMIG
#define NMIG 0
#endif
#ifndef NIND
#define NIND 0
#endif
#ifndef NPOP
#define NPOP 0
#endif
#ifndef NSPECIAL
#define NSPECIAL 0 /* number of double slots that may take a special value (one at a time) */
#endif

static double Lseq;
static double ntime[NN + 1];
static tsk_id_t npop[NN + 1], nind[NN + 1];
static double eleft[NE + 1], eright[NE + 1];
static tsk_id_t eparent[NE + 1], echild[NE + 1];
static double spos[NS + 1];
static tsk_id_t msite[NM + 1], mnode[NM + 1], mparent[NM + 1];
static double mtime[NM + 1];
static int munknown[NM + 1];
static double gleft[NMIG + 1], gright[NMIG + 1], gtime[NMIG + 1];
static tsk_id_t gnode[NMIG + 1], gsource[NMIG + 1], gdest[NMIG + 1];
static tsk_id_t iparent[NIND + 1][2];
static int iparent_len[NIND + 1];

static int special_slot, special_kind, slot_counter;

/* a symbolic double: integer-valued, or the one chosen special value */
static double
dbl(const char *prefix, int j)
{
    char nm[24];
    double v = sym_f64_int(sym_nm(nm, prefix, j));
    slot_counter++;
    if (slot_counter == special_slot) {
        return h_special(special_kind);
    }
    return v;
}

static tsk_id_t
id32(const char *prefix, int j)
{
    char nm[24];
    return sym_i32(sym_nm(nm, prefix, j));
}

static int
h_finite(double x)
{
    return x == x && x != INFINITY && x != -INFINITY;
}

/* --- docs/data-model.md, "Node requirements" ---------------------------------
 * population / individual must either be null (-1) or refer to a valid ID; the
 * property statement adds: times are finite. */
static int
spec_nodes(void)
{
    int j;
    for (j = 0; j < NN; j++) {
        if (!h_finite(ntime[j])) {
            return 0;
        }
        if (!(npop[j] == -1 || (npop[j] >= 0 && npop[j] < NPOP))) {
            return 0;
        }
        if (!(nind[j] == -1 || (nind[j] >= 0 && nind[j] < NIND))) {
            return 0;
        }
    }
    return 1;
}

/* "Individual requirements": parent references must be valid or null.
 * (An individual being its own parent is not a "valid reference".) */
static int
spec_individuals(void)
{
    int j, k;
    for (j = 0; j < NIND; j++) {
        for (k = 0; k < iparent_len[j]; k++) {
            tsk_id_t p = iparent[j][k];
            if (!(p == -1 || (p >= 0 && p < NIND))) {
                return 0;
            }
            if (p == j) {
                return 0;
            }
        }
    }
    return 1;
}

/* "Edge requirements" */
static int
spec_edges(void)
{
    int j, k;
    for (j = 0; j < NE; j++) {
        /* parent and child must be valid node IDs */
        if (!(eparent[j] >= 0 && eparent[j] < NN && echild[j] >= 0 && echild[j] < NN)) {
            return 0;
        }
        /* 0 <= left < right <= L  (finite) */
        if (!(h_finite(eleft[j]) && h_finite(eright[j]))) {
            return 0;
        }
        if (!(0 <= eleft[j] && eleft[j] < eright[j] && eright[j] <= Lseq)) {
            return 0;
        }
        /* time[parent] > time[child] */
        if (!(ntime[eparent[j]] > ntime[echild[j]])) {
            return 0;
        }
    }
    for (j = 0; j < NE; j++) {
        for (k = j + 1; k < NE; k++) {
            /* edges must be unique; the set of intervals on which each node is a child must be disjoint */
            if (echild[j] == echild[k] && eleft[j] < eright[k] && eleft[k] < eright[j]) {
                return 0;
            }
        }
    }
    for (j = 1; j < NE; j++) {
        /* Edges must be listed in nondecreasing order of parent time */
        if (ntime[eparent[j]] < ntime[eparent[j - 1]]) {
            return 0;
        }
        /* Within the edges for a given parent, sorted first by child ID and then by left */
        if (eparent[j] == eparent[j - 1]) {
            if (echild[j] < echild[j - 1]) {
                return 0;
            }
            if (echild[j] == echild[j - 1] && eleft[j] < eleft[j - 1]) {
                return 0;
            }
        }
    }
    /* All edges for a given parent must be contiguous */
    for (j = 0; j < NE; j++) {
        for (k = j + 2; k < NE; k++) {
            int m;
            for (m = j + 1; m < k; m++) {
                if (eparent[j] == eparent[k] && eparent[m] != eparent[j]) {
                    return 0;
                }
            }
        }
    }
    return 1;
}

/* "Site requirements" */
static int
spec_sites(void)
{
    int j;
    for (j = 0; j < NS; j++) {
        if (!h_finite(spos[j]) || !(0 <= spos[j] && spos[j] < Lseq)) {
            return 0;
        }
        /* unique and sorted in increasing order of position */
        if (j > 0 && !(spos[j - 1] < spos[j])) {
            return 0;
        }
    }
    return 1;
}

/* parent of node u at position x per the edge rows (valid edges assumed) */
static tsk_id_t
node_parent_at(tsk_id_t u, double x)
{
    int j;
    for (j = 0; j < NE; j++) {
        if (echild[j] == u && eleft[j] <= x && x < eright[j]) {
            return eparent[j];
        }
    }
    return TSK_NULL;
}

/* "Mutation requirements" (given valid nodes, edges and sites) */
static int
spec_mutations(void)
{
    int j, k;
    for (j = 0; j < NM; j++) {
        if (!(msite[j] >= 0 && msite[j] < NS)) {
            return 0;
        }
        if (!(mnode[j] >= 0 && mnode[j] < NN)) {
            return 0;
        }
        /* parent must be null or a valid mutation ID ... */
        if (!(mparent[j] == -1 || (mparent[j] >= 0 && mparent[j] < NM))) {
            return 0;
        }
    }
    for (j = 0; j < NM; j++) {
        tsk_id_t above = node_parent_at(mnode[j], spos[msite[j]]);
        if (!munknown[j]) {
            /* finite, >= node time, < time of the node above, <= parent mutation time */
            if (!h_finite(mtime[j]) || !(mtime[j] >= ntime[mnode[j]])) {
                return 0;
            }
            if (above != TSK_NULL && !(mtime[j] < ntime[above])) {
                return 0;
            }
        }
        /* a mixture of known and unknown at a site is not valid */
        for (k = 0; k < NM; k++) {
            if (msite[k] == msite[j] && munknown[k] != munknown[j]) {
                return 0;
            }
        }
        if (mparent[j] != -1) {
            /* ... which occurs before its child (y < x), on the same site */
            if (!(mparent[j] < j) || msite[mparent[j]] != msite[j]) {
                return 0;
            }
            if (!munknown[j] && !(mtime[j] <= mtime[mparent[j]])) {
                return 0;
            }
        }
        if (j > 0) {
            /* sorted by site ID; within a site by decreasing time, if known */
            if (msite[j - 1] > msite[j]) {
                return 0;
            }
            if (msite[j - 1] == msite[j] && !munknown[j] && !(mtime[j - 1] >= mtime[j])) {
                return 0;
            }
        }
    }
    return 1;
}

/* "Migration requirements" (those detected at load time) */
static int
spec_migrations(void)
{
    int j;
    for (j = 0; j < NMIG; j++) {
        if (!(gnode[j] >= 0 && gnode[j] < NN)) {
            return 0;
        }
        if (!(gsource[j] >= 0 && gsource[j] < NPOP && gdest[j] >= 0 && gdest[j] < NPOP)) {
            return 0;
        }
        if (!h_finite(gtime[j]) || !h_finite(gleft[j]) || !h_finite(gright[j])) {
            return 0;
        }
        if (!(0 <= gleft[j] && gleft[j] < gright[j] && gright[j] <= Lseq)) {
            return 0;
        }
        if (j > 0 && gtime[j - 1] > gtime[j]) {
            return 0;
        }
    }
    return 1;
}

int
main_c02(void)
{
    tsk_table_collection_t t;
    tsk_treeseq_t ts;
    int ret, j, k, spec, idx_ret;
    char md = 'x';

    ret = tsk_table_collection_init(&t, 0);
    sym_assume(ret == 0);
#if NSPECIAL > 0
    special_slot = sym_choice("sp_slot", 0, NSPECIAL);
    special_kind = special_slot == 0 ? 0 : sym_choice("sp_kind", 0, 2);
#endif
    slot_counter = 0;

#ifdef FREE_L
    Lseq = dbl("L", 0);
#else
    Lseq = 4;
#endif
    t.sequence_length = Lseq;
    for (j = 0; j < NPOP; j++) {
        tsk_population_table_add_row(&t.populations, NULL, 0);
    }
    for (j = 0; j < NIND; j++) {
#ifdef FREE_REFS
        iparent_len[j] = 2;
        iparent[j][0] = id32("ip", 2 * j);
        iparent[j][1] = id32("ip", 2 * j + 1);
#else
        iparent_len[j] = 0;
#endif
        ret = tsk_individual_table_add_row(
            &t.individuals, 0, NULL, 0, iparent[j], (tsk_size_t) iparent_len[j], NULL, 0);
        sym_assume(ret == j);
    }
    for (j = 0; j < NN; j++) {
#ifdef FREE_EDGES
        ntime[j] = dbl("t", j);
#else
        ntime[j] = j < 2 ? 0 : j - 1;
#endif
#ifdef FREE_REFS
        npop[j] = id32("np", j);
        nind[j] = id32("ni", j);
#else
        npop[j] = -1;
        nind[j] = -1;
#endif
        ret = tsk_node_table_add_row(
            &t.nodes, j < 2 ? TSK_NODE_IS_SAMPLE : 0, ntime[j], npop[j], nind[j], &md, 1);
        sym_assume(ret == j);
    }
    for (j = 0; j < NE; j++) {
#ifdef FREE_EDGES
        eleft[j] = dbl("l", j);
        eright[j] = dbl("r", j);
        eparent[j] = id32("p", j);
        echild[j] = id32("c", j);
#else
        /* baseline: nodes 0,1 are children of node 2 on [0,L) */
        eleft[j] = 0;
        eright[j] = Lseq;
        eparent[j] = 2;
        echild[j] = j;
#endif
        ret = tsk_edge_table_add_row(
            &t.edges, eleft[j], eright[j], eparent[j], echild[j], NULL, 0);
        sym_assume(ret == j);
    }
    for (j = 0; j < NS; j++) {
        spos[j] = dbl("x", j);
        ret = tsk_site_table_add_row(&t.sites, spos[j], "A", 1, NULL, 0);
        sym_assume(ret == j);
    }
    for (j = 0; j < NM; j++) {
        char nm[24];
        msite[j] = id32("ms", j);
        mnode[j] = id32("mn", j);
        mparent[j] = id32("mp", j);
        munknown[j] = sym_choice(sym_nm(nm, "mu", j), 0, 1);
        mtime[j] = munknown[j] ? TSK_UNKNOWN_TIME : dbl("mt", j);
        ret = tsk_mutation_table_add_row(
            &t.mutations, msite[j], mnode[j], mparent[j], mtime[j], "C", 1, NULL, 0);
        sym_assume(ret == j);
    }
    for (j = 0; j < NMIG; j++) {
        gleft[j] = dbl("gl", j);
        gright[j] = dbl("gr", j);
        gtime[j] = dbl("gt", j);
        gnode[j] = id32("gn", j);
        gsource[j] = id32("gs", j);
        gdest[j] = id32("gd", j);
        ret = tsk_migration_table_add_row(&t.migrations, gleft[j], gright[j], gnode[j],
            gsource[j], gdest[j], gtime[j], NULL, 0);
        sym_assume(ret == j);
    }

    idx_ret = tsk_table_collection_build_index(&t, 0);
#ifdef FREE_INDEX
    /* a user-supplied (possibly stale) index: every entry of both orders is a free 32-bit value */
    if (idx_ret == 0) {
        for (j = 0; j < NE; j++) {
            t.indexes.edge_insertion_order[j] = id32("ii", j);
            t.indexes.edge_removal_order[j] = id32("io", j);
        }
    }
#endif
    ret = tsk_treeseq_init(&ts, &t, 0);

    /* the oracle, evaluated in the documented dependency order */
    spec = Lseq > 0;
    spec = spec && spec_individuals();
    spec = spec && spec_nodes();
    spec = spec && spec_edges();
    spec = spec && spec_sites();
    spec = spec && spec_mutations();
    spec = spec && spec_migrations();
#ifdef FREE_INDEX
    if (idx_ret == 0) {
        /* an index consistent with the edges: both orders are permutations of the edge ids, insertion order by
         * non-decreasing left, removal order by non-decreasing right (ties in any order) */
        int seen_i[NE + 1], seen_o[NE + 1], ok = 1;
        for (j = 0; j < NE; j++) {
            seen_i[j] = seen_o[j] = 0;
        }
        for (j = 0; j < NE && ok; j++) {
            tsk_id_t a = t.indexes.edge_insertion_order[j], b = t.indexes.edge_removal_order[j];
            if (a < 0 || a >= NE || b < 0 || b >= NE) {
                ok = 0;
                break;
            }
            if (seen_i[a] || seen_o[b]) {
                ok = 0;
                break;
            }
            seen_i[a] = seen_o[b] = 1;
        }
        for (j = 0; j + 1 < NE && ok; j++) {
            ok = ok && eleft[t.indexes.edge_insertion_order[j]] <= eleft[t.indexes.edge_insertion_order[j + 1]]
                 && eright[t.indexes.edge_removal_order[j]] <= eright[t.indexes.edge_removal_order[j + 1]];
        }
        if (spec && !ok) {
            sym_reach("bad-index");
        }
        spec = spec && ok;
    }
#endif

    if (ret == 0) {
        sym_reach("accept");
    } else {
        sym_reach("reject");
    }
    sym_assert(ret <= 0, "treeseq_init returns 0 or a negative error code");
    sym_assert((ret == 0) == (spec != 0), "treeseq_init accepts iff the documented requirements hold");
    sym_assert(idx_ret == 0 || ret != 0, "no tree sequence without an index");

    /* rows are left exactly as they were */
    sym_assert(t.nodes.num_rows == NN && t.edges.num_rows == NE && t.sites.num_rows == NS
                   && t.mutations.num_rows == NM && t.migrations.num_rows == NMIG
                   && t.individuals.num_rows == NIND,
        "row counts unchanged");
    for (j = 0; j < NN; j++) {
        sym_assert(t.nodes.population[j] == npop[j] && t.nodes.individual[j] == nind[j]
                       && t.nodes.metadata[j] == 'x',
            "node rows unchanged");
    }
    for (j = 0; j < NE; j++) {
        sym_assert(t.edges.parent[j] == eparent[j] && t.edges.child[j] == echild[j],
            "edge rows unchanged");
        if (eleft[j] == eleft[j] && eright[j] == eright[j]) {
            sym_assert(t.edges.left[j] == eleft[j] && t.edges.right[j] == eright[j],
                "edge coordinates unchanged");
        }
    }
    for (j = 0; j < NM; j++) {
        sym_assert(t.mutations.site[j] == msite[j] && t.mutations.node[j] == mnode[j]
                       && t.mutations.parent[j] == mparent[j],
            "mutation rows unchanged");
    }
    for (j = 0; j < NIND; j++) {
        for (k = 0; k < iparent_len[j]; k++) {
            sym_assert(t.individuals.parents[t.individuals.parents_offset[j] + (tsk_size_t) k]
                           == iparent[j][k],
                "individual rows unchanged");
        }
    }
    if (ret == 0) {
        sym_assert(tsk_table_collection_equals(&t, ts.tables, 0), "tree sequence holds an equal copy");
    }
    tsk_treeseq_free(&ts);
    tsk_table_collection_free(&t);
    SYM_END();
    return 0;
}
