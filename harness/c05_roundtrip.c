/* C05: dumpf -> loadf returns an equal table collection in every column byte,
 * for collections that need not be valid tree sequences; several objects
 * back-to-back on one stream load in order and end-of-stream is signalled
 * distinctly.  Column contents are solver variables; files live in the
 * engine's in-memory FILE stub. */
#include "common.h"

static double
dval(const char *name, int kind)
{
    /* kind: 0 integer-valued symbolic, 1 NaN, 2 +inf, 3 unknown-time NaN */
    switch (kind) {
        case 0:
            return sym_f64_int(name);
        case 1:
            return NAN;
        case 2:
            return INFINITY;
        default:
            return TSK_UNKNOWN_TIME;
    }
}

static int
same_bits(double a, double b)
{
    return memcmp(&a, &b, sizeof(a)) == 0;
}

static void
fill(tsk_table_collection_t *t, int variant)
{
    char md[2], as[1], ds[2], b[1];
    double loc[2];
    tsk_id_t par[1];
    int ret, dk = sym_choice("dkind", 0, 3);

    t->sequence_length = sym_f64_int("L");
    sym_assume(t->sequence_length > 0);
    md[0] = (char) sym_i8("md0");
    md[1] = (char) sym_i8("md1");
    b[0] = (char) sym_i8("b0");
    ret = tsk_table_collection_set_metadata(t, md, 2);
    sym_assume(ret == 0);
    ret = tsk_table_collection_set_metadata_schema(t, b, 1);
    sym_assume(ret == 0);
    if (variant & 1) {
        ret = tsk_table_collection_set_time_units(t, b, 1);
        sym_assume(ret == 0);
        /* a reference sequence may have a url / metadata but no sequence data */
        if (sym_choice("refdata", 0, 1)) {
            ret = tsk_reference_sequence_set_data(&t->reference_sequence, md, 2);
            sym_assume(ret == 0);
        }
        ret = tsk_reference_sequence_set_url(&t->reference_sequence, b, 1);
        sym_assume(ret == 0);
        ret = tsk_reference_sequence_set_metadata(&t->reference_sequence, md, 1);
        sym_assume(ret == 0);
        ret = tsk_node_table_set_metadata_schema(&t->nodes, md, 2);
        sym_assume(ret == 0);
    }
    if (variant & 2) {
        return; /* all tables empty */
    }
    tsk_population_table_add_row(&t->populations, b, 1);
    tsk_population_table_add_row(&t->populations, NULL, 0);
    loc[0] = dval("loc0", dk == 3 ? 0 : dk);
    loc[1] = sym_f64_int("loc1");
    par[0] = sym_i32("ipar");
    tsk_individual_table_add_row(&t->individuals, (tsk_flags_t) sym_i32("ifl"), loc, 2, par, 1, md, 2);
    tsk_individual_table_add_row(&t->individuals, 0, NULL, 0, NULL, 0, NULL, 0);
    tsk_node_table_add_row(&t->nodes, (tsk_flags_t) sym_i32("nfl"), dval("nt", dk == 3 ? 1 : dk), sym_i32("npop"),
        sym_i32("nind"), md, 2);
    tsk_node_table_add_row(&t->nodes, 1, 0, -1, -1, NULL, 0);
    tsk_node_table_add_row(&t->nodes, 0, 1.5, -1, -1, b, 1);
    tsk_edge_table_add_row(&t->edges, dval("el", dk == 3 ? 2 : dk), sym_f64_int("er"), sym_i32("ep"), sym_i32("ec"), b, 1);
    as[0] = (char) sym_i8("as0");
    tsk_site_table_add_row(&t->sites, sym_f64_int("sx"), as, 1, NULL, 0);
    tsk_site_table_add_row(&t->sites, 0.25, NULL, 0, md, 2);
    ds[0] = (char) sym_i8("ds0");
    ds[1] = (char) sym_i8("ds1");
    tsk_mutation_table_add_row(&t->mutations, sym_i32("msite"), sym_i32("mnode"), sym_i32("mpar"), dval("mt", dk), ds, 2, NULL, 0);
    tsk_mutation_table_add_row(&t->mutations, 0, 0, -1, TSK_UNKNOWN_TIME, NULL, 0, b, 1);
    tsk_migration_table_add_row(&t->migrations, sym_f64_int("gl"), sym_f64_int("gr"), sym_i32("gn"), sym_i32("gs"),
        sym_i32("gd"), sym_f64_int("gt"), md, 1);
    tsk_provenance_table_add_row(&t->provenances, b, 1, md, 2);
    tsk_provenance_table_add_row(&t->provenances, NULL, 0, NULL, 0);
    if (variant & 4) {
        tsk_id_t I[1], O[1];
        I[0] = sym_i32("I0");
        O[0] = sym_i32("O0");
        ret = tsk_table_collection_set_indexes(t, I, O);
        sym_assume(ret == 0);
    }
}

static void
check_equal(tsk_table_collection_t *a, tsk_table_collection_t *b)
{
    tsk_size_t j;
    sym_assert(tsk_table_collection_equals(a, b, 0), "loaded collection equals the dumped one");
    /* independent byte-level spot checks of every table */
    sym_assert(same_bits(a->sequence_length, b->sequence_length), "sequence_length bits");
    sym_assert(a->metadata_length == b->metadata_length && memcmp(a->metadata, b->metadata, (size_t) a->metadata_length) == 0, "top-level metadata bytes");
    sym_assert(a->metadata_schema_length == b->metadata_schema_length
                   && memcmp(a->metadata_schema, b->metadata_schema, (size_t) a->metadata_schema_length) == 0, "top-level schema bytes");
    sym_assert(a->time_units_length == b->time_units_length && memcmp(a->time_units, b->time_units, (size_t) a->time_units_length) == 0, "time units");
    sym_assert(tsk_table_collection_has_reference_sequence(a) == tsk_table_collection_has_reference_sequence(b), "reference sequence presence");
    sym_assert(a->reference_sequence.data_length == b->reference_sequence.data_length
                   && memcmp(a->reference_sequence.data, b->reference_sequence.data, (size_t) a->reference_sequence.data_length) == 0, "reference data");
    sym_assert(a->nodes.num_rows == b->nodes.num_rows && a->edges.num_rows == b->edges.num_rows
                   && a->sites.num_rows == b->sites.num_rows && a->mutations.num_rows == b->mutations.num_rows
                   && a->migrations.num_rows == b->migrations.num_rows && a->individuals.num_rows == b->individuals.num_rows
                   && a->populations.num_rows == b->populations.num_rows && a->provenances.num_rows == b->provenances.num_rows, "row counts");
    for (j = 0; j < a->nodes.num_rows; j++) {
        sym_assert(a->nodes.flags[j] == b->nodes.flags[j] && same_bits(a->nodes.time[j], b->nodes.time[j])
                       && a->nodes.population[j] == b->nodes.population[j] && a->nodes.individual[j] == b->nodes.individual[j]
                       && a->nodes.metadata_offset[j + 1] == b->nodes.metadata_offset[j + 1], "node columns");
    }
    sym_assert(memcmp(a->nodes.metadata, b->nodes.metadata, (size_t) a->nodes.metadata_length) == 0, "node metadata bytes");
    for (j = 0; j < a->edges.num_rows; j++) {
        sym_assert(same_bits(a->edges.left[j], b->edges.left[j]) && same_bits(a->edges.right[j], b->edges.right[j])
                       && a->edges.parent[j] == b->edges.parent[j] && a->edges.child[j] == b->edges.child[j], "edge columns");
    }
    for (j = 0; j < a->mutations.num_rows; j++) {
        sym_assert(a->mutations.site[j] == b->mutations.site[j] && a->mutations.node[j] == b->mutations.node[j]
                       && a->mutations.parent[j] == b->mutations.parent[j] && same_bits(a->mutations.time[j], b->mutations.time[j])
                       && a->mutations.derived_state_offset[j + 1] == b->mutations.derived_state_offset[j + 1], "mutation columns");
    }
    sym_assert(memcmp(a->mutations.derived_state, b->mutations.derived_state, (size_t) a->mutations.derived_state_length) == 0, "derived state bytes");
    for (j = 0; j < a->individuals.num_rows; j++) {
        sym_assert(a->individuals.flags[j] == b->individuals.flags[j]
                       && a->individuals.location_offset[j + 1] == b->individuals.location_offset[j + 1]
                       && a->individuals.parents_offset[j + 1] == b->individuals.parents_offset[j + 1], "individual columns");
    }
    for (j = 0; j < a->individuals.location_length; j++) {
        sym_assert(same_bits(a->individuals.location[j], b->individuals.location[j]), "individual location bits");
    }
    sym_assert(tsk_table_collection_has_index(a, 0) == tsk_table_collection_has_index(b, 0), "index presence");
    if (tsk_table_collection_has_index(a, 0)) {
        for (j = 0; j < a->edges.num_rows; j++) {
            sym_assert(a->indexes.edge_insertion_order[j] == b->indexes.edge_insertion_order[j]
                           && a->indexes.edge_removal_order[j] == b->indexes.edge_removal_order[j], "index arrays");
        }
    }
}

int
main_c05(void)
{
    tsk_table_collection_t t, u, t2, c, first;
    int ret, variant = sym_choice("variant", 0, 7);
    FILE *f = sym_file_new(), *f0 = f;

    ret = tsk_table_collection_init(&t, 0);
    sym_assume(ret == 0);
    fill(&t, variant);
    /* copy() is lossless too */
    ret = tsk_table_collection_copy(&t, &c, 0);
    sym_assert(ret == 0, "copy ok");
    check_equal(&t, &c);
    /* a second, different object for the same stream */
    ret = tsk_table_collection_copy(&t, &u, 0);
    sym_assume(ret == 0);
    tsk_node_table_add_row(&u.nodes, 7, 3.0, -1, -1, "zz", 2);
    tsk_table_collection_drop_index(&u, 0);

    ret = tsk_table_collection_dumpf(&t, f, 0);
    sym_assert(ret == 0, "dump 1 ok");
    ret = tsk_table_collection_dumpf(&u, f, 0);
    sym_assert(ret == 0, "dump 2 ok");
    ret = tsk_table_collection_dumpf(&t, f, 0);
    sym_assert(ret == 0, "dump 3 ok");
    sym_file_rewind(f);
    /* back-to-back objects must also load from a stream that cannot seek (pipe, socket) */
    if (!sym_choice("seekable", 0, 1)) {
        f = sym_file_unseekable(f);
    }

    ret = tsk_table_collection_loadf(&t2, f, 0);
    sym_assert(ret == 0, "load 1 ok");
    check_equal(&t, &t2);
    sym_assert(!tsk_table_collection_equals(&u, &t2, 0), "objects on the stream are not mixed up");
    tsk_table_collection_free(&t2);
    ret = tsk_table_collection_loadf(&t2, f, 0);
    sym_assert(ret == 0, "load 2 ok");
    check_equal(&u, &t2);
    tsk_table_collection_free(&t2);
    ret = tsk_table_collection_loadf(&t2, f, 0);
    sym_assert(ret == 0, "load 3 ok");
    check_equal(&t, &t2);
    tsk_table_collection_free(&t2);
    ret = tsk_table_collection_loadf(&t2, f, 0);
    sym_assert(ret == TSK_ERR_EOF, "end of stream is signalled by TSK_ERR_EOF");
    tsk_table_collection_free(&t2);
    /* two loaded copies of the same stored object (same file uuid) stay ordinary mutable collections: equality is
     * decided by the data, also after one of them has been edited */
    sym_file_rewind(f0);
    ret = tsk_table_collection_loadf(&first, f0, 0);
    sym_assert(ret == 0, "first object loads again after rewinding");
    sym_file_rewind(f0);
    ret = tsk_table_collection_loadf(&t2, f0, 0);
    sym_assert(ret == 0, "and once more");
    sym_assert(tsk_table_collection_equals(&first, &t2, 0), "two loads of the same object are equal");
    switch (sym_choice("edit", 0, 2)) {
        case 0:
            t2.sequence_length += 1;
            sym_assert(!tsk_table_collection_equals(&first, &t2, 0), "an edited copy differs (sequence length)");
            break;
        case 1:
            tsk_node_table_add_row(&t2.nodes, 0, 0, -1, -1, NULL, 0);
            sym_assert(!tsk_table_collection_equals(&first, &t2, 0), "an edited copy differs (node row)");
            sym_assert(!tsk_table_collection_equals(&first, &t2, TSK_CMP_IGNORE_METADATA | TSK_CMP_IGNORE_PROVENANCE),
                "an edited copy differs under ignore options that do not cover the edit");
            break;
        default:
            ret = tsk_table_collection_set_metadata(&t2, "xyz", 3);
            sym_assume(ret == 0);
            sym_assert(!tsk_table_collection_equals(&first, &t2, 0), "an edited copy differs (top-level metadata)");
            sym_assert(tsk_table_collection_equals(&first, &t2, TSK_CMP_IGNORE_TS_METADATA), "and is equal when that is ignored");
            break;
    }
    tsk_table_collection_free(&t2);
    tsk_table_collection_free(&first);
    tsk_table_collection_free(&t);
    tsk_table_collection_free(&u);
    tsk_table_collection_free(&c);
    SYM_END();
    return 0;
}
