/* Leaf-kernel harnesses: static integer kernels of c/tskit/tables.c executed with fully symbolic machine-word
 * arguments (the "one step from an arbitrary valid state" style).  tables.c is compiled into this unit so that its
 * static functions are callable; the rest of the library is linked as usual.
 * UNITY: tables.c
 *
 * KERNEL 1 (C19): the pair <-> integer key used by the IBD result store, for every num_nodes < 2^31
 * KERNEL 2 (C13): row / ragged-length capacity arithmetic, for every 64-bit state
 * KERNEL 3 (C05): 32/64-bit offset narrowing on dump and widening on load, symbolic 64-bit offsets
 */
#include "common.h"
#include "tskit/tables.c"

#ifndef KERNEL
#define KERNEL 1
#endif

#if KERNEL == 1
int
main_kernel(void)
{
    tsk_identity_segments_t S;
    int32_t N = sym_i32("N"), a = sym_i32("a"), b = sym_i32("b");
    tsk_id_t x, y, lo, hi;
    int64_t key, k2;

    sym_assume(N >= 1);
    memset(&S, 0, sizeof(S));
    S.num_nodes = (tsk_size_t) N;
    key = tsk_identity_segments_get_key(&S, a, b);
    if (a < 0 || b < 0 || a >= N || b >= N) {
        sym_assert(key == TSK_ERR_NODE_OUT_OF_BOUNDS, "pairs with a node outside the table are rejected");
        sym_reach("oob");
    } else if (a == b) {
        sym_assert(key == TSK_ERR_SAME_NODES_IN_PAIR, "a node paired with itself is rejected");
    } else {
        lo = a < b ? a : b;
        hi = a < b ? b : a;
        sym_assert(key >= 0, "the key of a valid pair is not an error code");
        k2 = tsk_identity_segments_get_key(&S, b, a);
        sym_assert(k2 == key, "the key does not depend on the order of the pair");
        integer_to_pair(key, S.num_nodes, &x, &y);
        sym_assert(x == lo && y == hi, "the stored key decodes to the pair it was made from (keys are injective)");
        sym_reach("pair");
    }
    SYM_END();
    return 0;
}
#endif

#if KERNEL == 2
int
main_kernel(void)
{
    tsk_size_t num = (tsk_size_t) sym_i64("num"), max = (tsk_size_t) sym_i64("max"), inc = (tsk_size_t) sym_i64("inc"),
               add = (tsk_size_t) sym_i64("add"), out = 0;
    int ret, which = sym_choice("which", 0, 1);

    if (which == 0) {
        /* table state: num_rows <= max_rows <= TSK_MAX_ID + 1 */
        const tsk_size_t LIM = (tsk_size_t) TSK_MAX_ID;
        sym_assume(num <= max && max <= LIM + 1 && num <= LIM);
        ret = calculate_max_rows(num, max, inc, add, &out);
        if (ret == 0) {
            sym_assert(add <= LIM && num <= LIM - add, "success only when the rows fit in an id");
            sym_assert(out >= num + add, "the new capacity holds the rows about to be written");
            sym_assert(out >= max, "capacity never shrinks");
            sym_assert(out <= LIM + 1, "capacity stays within the id range");
            sym_reach("grow");
        } else {
            sym_assert(ret == TSK_ERR_TABLE_OVERFLOW, "the only failure is the overflow error");
            sym_assert(add > LIM || num > LIM - add || (num + add > max && inc != 0 && (inc > LIM || max > LIM - inc)),
                "overflow is reported only when the rows (or the requested increment) do not fit");
            sym_reach("overflow");
        }
    } else {
        const tsk_size_t LIM = TSK_MAX_SIZE;
        sym_assume(num <= max && max <= LIM);
        ret = calculate_max_length(num, max, inc, add, &out);
        if (ret == 0) {
            sym_assert(add <= LIM && num <= LIM - add, "success only when the length fits");
            sym_assert(out >= num + add, "the new capacity holds the bytes about to be written");
            sym_assert(out >= max, "capacity never shrinks");
            sym_assert(out <= LIM, "capacity stays within the offset range");
            sym_reach("grow");
        } else {
            sym_assert(ret == TSK_ERR_COLUMN_OVERFLOW, "the only failure is the overflow error");
            sym_assert(add > LIM || num > LIM - add || (num + add > max && inc != 0 && (inc > LIM || max > LIM - inc)),
                "overflow is reported only when the bytes (or the requested increment) do not fit");
            sym_reach("overflow");
        }
    }
    SYM_END();
    return 0;
}
#endif

#if KERNEL == 3
int
main_kernel(void)
{
    kastore_t store;
    FILE *f = sym_file_new();
    tsk_size_t offsets[3], *got = NULL, num_rows = TSK_NUM_ROWS_UNSET, data_len = 0;
    char *data = NULL;
    write_table_ragged_col_t wcol = { "x", "", 0, KAS_INT8, offsets, 2 };
    read_table_ragged_col_t rcols[2];
    int ret, type;
    size_t len;
    void *arr;
    tsk_flags_t opt = sym_choice("force64", 0, 1) ? TSK_DUMP_FORCE_OFFSET_64 : 0;

    offsets[0] = 0;
    offsets[1] = (tsk_size_t) sym_i64("o1");
    offsets[2] = (tsk_size_t) sym_i64("o2");
    sym_assume(offsets[1] <= offsets[2]);
    /* dump the offsets of a two-row ragged column (the data column itself is irrelevant to the narrowing decision) */
    ret = kastore_openf(&store, f, "w", 0);
    sym_assume(ret == 0);
    ret = write_offset_col(&store, &wcol, opt);
    sym_assert(ret == 0, "offset column written");
    ret = kastore_close(&store);
    sym_assume(ret == 0);
    sym_file_rewind(f);
    ret = kastore_openf(&store, f, "r", KAS_READ_ALL);
    sym_assert(ret == 0, "the file just written opens");
    ret = kastore_gets(&store, "x_offset", &arr, &len, &type);
    sym_assert(ret == 0 && len == 3, "offset column present with num_rows + 1 entries");
    if (opt || offsets[2] > UINT32_MAX) {
        sym_assert(type == KAS_UINT64, "offsets that do not fit 32 bits are stored as 64-bit");
        sym_reach("wide");
        got = arr;
        sym_assert(got[0] == 0 && got[1] == offsets[1] && got[2] == offsets[2], "64-bit offsets are stored unchanged");
    } else {
        memset(rcols, 0, sizeof(rcols));
        rcols[0].offset_array_dest = &got;
        sym_assert(type == KAS_UINT32, "small offsets are stored as 32-bit");
        ret = cast_offset_array(&rcols[0], (uint32_t *) arr, 2);
        sym_assert(ret == 0, "widening succeeds");
        sym_assert(got[0] == 0 && got[1] == offsets[1] && got[2] == offsets[2], "narrowed offsets widen back to the same values");
        sym_assert(check_offsets(2, got, offsets[2], true) == 0, "the widened offsets pass the load-time check");
        free(got);
        sym_reach("narrow");
    }
    (void) data;
    (void) data_len;
    (void) num_rows;
    kastore_close(&store);
    SYM_END();
    return 0;
}
#endif
