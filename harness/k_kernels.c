/* Leaf-kernel harnesses: static integer kernels of c/tskit/tables.c executed with fully symbolic machine-word
 * arguments (the "one step from an arbitrary valid state" style).  tables.c is compiled into this unit so that its
 * static functions are callable; the rest of the library is linked as usual.
 * UNITY: tables.c
 *
 * KERNEL 1 (C19): the pair <-> integer key used by the IBD result store, for every num_nodes < 2^31
 * KERNEL 2 (C13): row / ragged-length capacity arithmetic, for every 64-bit state
 * KERNEL 3 (C05): 32/64-bit offset narrowing on dump and widening on load, symbolic 64-bit offsets
 */
#include "common.h"
#include "tskit/tables.c"

#ifndef KERNEL
#define KERNEL 1
#endif

#if KERNEL == 1
int
main_kernel(void)
{
    tsk_identity_segments_t S;
    int32_t N = sym_i32("N"), a = sym_i32("a"), b = sym_i32("b");
    tsk_id_t x, y, lo, hi;
    int64_t key, k2;

    sym_assume(N >= 1);
    memset(&S, 0, sizeof(S));
    S.num_nodes = (tsk_size_t) N;
    key = tsk_identity_segments_get_key(&S, a, b);
    if (a < 0 || b < 0 || a >= N || b >= N) {
        sym_assert(key < 0, "pairs with a node outside the table are rejected");
        sym_reach("oob");
    } else if (a == b) {
        sym_assert(key < 0, "a node paired with itself is rejected");
    } else {
        lo = a < b ? a : b;
        hi = a < b ? b : a;
        sym_assert(key >= 0, "the key of a valid pair is not an error code");
        k2 = tsk_identity_segments_get_key(&S, b, a);
        sym_assert(k2 == key, "the key does not depend on the order of the pair");
        integer_to_pair(key, S.num_nodes, &x, &y);
        sym_assert(x == lo && y == hi, "the stored key decodes to the pair it was made from (keys are injective)");
        sym_reach("pair");
    }
    SYM_END();
    return 0;
}
#endif

#if KERNEL == 2
int
main_kernel(void)
{
    tsk_size_t num = (tsk_size_t) sym_i64("num"), max = (tsk_size_t) sym_i64("max"), inc = (tsk_size_t) sym_i64("inc"),
               add = (tsk_size_t) sym_i64("add"), out = 0;
    int ret, which = sym_choice("which", 0, 1);

    if (which == 0) {
        /* table state: num_rows <= max_rows <= TSK_MAX_ID + 1 */
        const tsk_size_t LIM = (tsk_size_t) TSK_MAX_ID;
        sym_assume(num <= max && max <= LIM + 1 && num <= LIM);
        ret = calculate_max_rows(num, max, inc, add, &out);
        if (ret == 0) {
            sym_assert(add <= LIM && num <= LIM - add, "success only when the rows fit in an id");
            sym_assert(out >= num + add, "the new capacity holds the rows about to be written");
            sym_assert(out >= max, "capacity never shrinks");
            sym_assert(out <= LIM + 1, "capacity stays within the id range");
            sym_reach("grow");
        } else {
            sym_assert(ret < 0, "failure is reported by a negative error code");
            /* with the default growth policy a request that fits in the id range never fails (a list would grow) */
            sym_assert(inc != 0 || add > LIM || num > LIM - add, "default growth fails only when the rows do not fit");
            sym_reach("overflow");
        }
    } else {
        const tsk_size_t LIM = TSK_MAX_SIZE;
        sym_assume(num <= max && max <= LIM);
        ret = calculate_max_length(num, max, inc, add, &out);
        if (ret == 0) {
            sym_assert(add <= LIM && num <= LIM - add, "success only when the length fits");
            sym_assert(out >= num + add, "the new capacity holds the bytes about to be written");
            sym_assert(out >= max, "capacity never shrinks");
            sym_assert(out <= LIM, "capacity stays within the offset range");
            sym_reach("grow");
        } else {
            sym_assert(ret < 0, "failure is reported by a negative error code");
            sym_assert(inc != 0 || add > LIM || num > LIM - add, "default growth fails only when the bytes do not fit");
            sym_reach("overflow");
        }
    }
    SYM_END();
    return 0;
}
#endif

#if KERNEL == 3
int
main_kernel(void)
{
    kastore_t store;
    FILE *f = sym_file_new();
    tsk_size_t offsets[3], *got = NULL, num_rows = TSK_NUM_ROWS_UNSET, data_len = 0;
    char *data = NULL;
    write_table_ragged_col_t wcol = { "x", "", 0, KAS_INT8, offsets, 2 };
    read_table_ragged_col_t rcols[2];
    int ret, type;
    size_t len;
    void *arr;
    tsk_flags_t opt = sym_choice("force64", 0, 1) ? TSK_DUMP_FORCE_OFFSET_64 : 0;

    offsets[0] = 0;
    offsets[1] = (tsk_size_t) sym_i64("o1");
    offsets[2] = (tsk_size_t) sym_i64("o2");
    sym_assume(offsets[1] <= offsets[2]);
    /* dump the offsets of a two-row ragged column (the data column itself is irrelevant to the narrowing decision) */
    ret = kastore_openf(&store, f, "w", 0);
    sym_assume(ret == 0);
    ret = write_offset_col(&store, &wcol, opt);
    sym_assert(ret == 0, "offset column written");
    ret = kastore_close(&store);
    sym_assume(ret == 0);
    sym_file_rewind(f);
    ret = kastore_openf(&store, f, "r", KAS_READ_ALL);
    sym_assert(ret == 0, "the file just written opens");
    ret = kastore_gets(&store, "x_offset", &arr, &len, &type);
    sym_assert(ret == 0 && len == 3, "offset column present with num_rows + 1 entries");
    if (offsets[2] > UINT32_MAX) {
        sym_assert(type == KAS_UINT64, "offsets that do not fit 32 bits are stored as 64-bit");
    }
    if (opt) {
        sym_assert(type == KAS_UINT64, "FORCE_OFFSET_64 stores 64-bit offsets");
    }
    sym_assert(type == KAS_UINT64 || type == KAS_UINT32, "offset column type");
    if (type == KAS_UINT64) {
        sym_reach("wide");
        got = arr;
        sym_assert(got[0] == 0 && got[1] == offsets[1] && got[2] == offsets[2], "64-bit offsets are stored unchanged");
    } else {
        memset(rcols, 0, sizeof(rcols));
        rcols[0].offset_array_dest = &got;
        ret = cast_offset_array(&rcols[0], (uint32_t *) arr, 2);
        sym_assert(ret == 0, "widening succeeds");
        sym_assert(got[0] == 0 && got[1] == offsets[1] && got[2] == offsets[2], "narrowed offsets widen back to the same values");
        sym_assert(check_offsets(2, got, offsets[2], true) == 0, "the widened offsets pass the load-time check");
        free(got);
        sym_reach("narrow");
    }
    (void) data;
    (void) data_len;
    (void) num_rows;
    kastore_close(&store);
    SYM_END();
    return 0;
}
#endif

#if KERNEL == 4
/* (C19) the integer-keyed AVL tree behind the pair store: NK inserts with free 64-bit keys */
#ifndef NK
#define NK 4
#endif
static int
avl_height(const tsk_avl_node_int_t *n, int depth)
{
    int l, r;
    if (n == NULL || depth > NK + 1) {
        return 0;
    }
    l = avl_height(n->llink, depth + 1);
    r = avl_height(n->rlink, depth + 1);
    sym_assert(r - l == n->balance, "stored balance factor equals the height difference");
    sym_assert(r - l >= -1 && r - l <= 1, "the tree is height balanced");
    return 1 + (l > r ? l : r);
}

int
main_kernel(void)
{
    tsk_avl_tree_int_t tree;
    tsk_avl_node_int_t nodes[NK], *out[NK], *hit;
    int64_t keys[NK];
    int inserted[NK], j, k, ret, n = 0, dup;
    char nm[16];

    tsk_avl_tree_int_init(&tree);
    for (j = 0; j < NK; j++) {
        keys[j] = sym_i64(sym_nm(nm, "k", j));
        memset(&nodes[j], 0, sizeof(nodes[j]));
        nodes[j].key = keys[j];
        nodes[j].value = &keys[j];
        dup = 0;
        for (k = 0; k < j; k++) {
            dup |= inserted[k] && keys[k] == keys[j];
        }
#ifdef DISTINCT
        sym_assume(!dup);
#endif
        ret = tsk_avl_tree_int_insert(&tree, &nodes[j]);
        sym_assert((ret != 0) == (dup != 0), "insert reports a duplicate exactly when the key is already stored");
        inserted[j] = ret == 0;
        n += inserted[j];
        if (dup) {
            sym_reach("dup");
        }
        if (tree.height >= 3 && j == NK - 1) {
            sym_reach("height3");
        }
    }
    sym_assert((int) tree.size == n, "size counts the distinct keys");
    for (j = 0; j < NK; j++) {
        hit = tsk_avl_tree_int_search(&tree, keys[j]);
        sym_assert(hit != NULL && hit->key == keys[j], "every inserted key is found");
        if (inserted[j]) {
            sym_assert(hit == &nodes[j], "search returns the node that was inserted for the key");
        }
    }
#ifndef NOPROBE
    {
        int64_t probe = sym_i64("probe");
        int present = 0;
        for (j = 0; j < NK; j++) {
            present |= keys[j] == probe;
        }
        hit = tsk_avl_tree_int_search(&tree, probe);
        sym_assert((hit != NULL) == (present != 0), "a key is found exactly when it was inserted");
    }
#endif
    ret = tsk_avl_tree_int_ordered_nodes(&tree, out);
    sym_assert(ret == 0, "ordered_nodes succeeds");
    for (j = 0; j + 1 < n; j++) {
        sym_assert(out[j]->key < out[j + 1]->key, "in-order traversal is strictly increasing");
    }
    avl_height(tsk_avl_tree_int_get_root(&tree), 0);
    if (n == NK) {
        sym_reach("full");
    }
    SYM_END();
    return 0;
}
#endif

#if KERNEL == 5
/* (C07) the sort comparators are consistent orders on their whole domain: antisymmetric, transitive, and zero only on
 * equal keys.  Doubles are free binary64 values except NaN; a mutation time may be the UNKNOWN_TIME NaN, under the
 * data-model rule that the mutations of one site are all known or all unknown. */
#define SGN(x) (((x) > 0) - ((x) < 0))
static double
known_or_unknown(const char *name, int unknown)
{
    double x = sym_f64(name);
    sym_assume(!(x != x));
    return unknown ? TSK_UNKNOWN_TIME : x;
}

#define CHECK3(cmp, a, b, c, same_ab)                                                                                      \
    do {                                                                                                                  \
        int ab = cmp(&a, &b), ba = cmp(&b, &a), bc = cmp(&b, &c), ac = cmp(&a, &c);                                       \
        sym_assert(SGN(ab) == -SGN(ba), #cmp " is antisymmetric");                                                       \
        sym_assert(!(ab <= 0 && bc <= 0) || ac <= 0, #cmp " is transitive");                                             \
        sym_assert(cmp(&a, &a) == 0, #cmp " is reflexive");                                                              \
        sym_assert((ab == 0) == (same_ab), #cmp " returns 0 exactly on equal keys");                                     \
    } while (0)

int
main_kernel(void)
{
    int which = sym_choice("which", 0, 8), j;
    char nm[16];
    if (which == 0) {
        edge_sort_t e[3];
        for (j = 0; j < 3; j++) {
            memset(&e[j], 0, sizeof(e[j]));
            e[j].time = known_or_unknown(sym_nm(nm, "t", j), 0);
            e[j].left = known_or_unknown(sym_nm(nm, "l", j), 0);
            e[j].parent = sym_i32(sym_nm(nm, "p", j));
            e[j].child = sym_i32(sym_nm(nm, "c", j));
        }
        CHECK3(cmp_edge, e[0], e[1], e[2],
            e[0].time == e[1].time && e[0].left == e[1].left && e[0].parent == e[1].parent && e[0].child == e[1].child);
    } else if (which == 1) {
        tsk_site_t s[3];
        for (j = 0; j < 3; j++) {
            memset(&s[j], 0, sizeof(s[j]));
            s[j].position = known_or_unknown(sym_nm(nm, "x", j), 0);
            s[j].id = sym_i32(sym_nm(nm, "id", j));
        }
        CHECK3(cmp_site, s[0], s[1], s[2], s[0].position == s[1].position && s[0].id == s[1].id);
    } else if (which == 2) {
        tsk_mutation_t m[3];
        int unknown[2];
        unknown[0] = sym_choice("unk0", 0, 1); /* all mutations of site A / of any other site */
        unknown[1] = sym_choice("unk1", 0, 1);
        for (j = 0; j < 3; j++) {
            memset(&m[j], 0, sizeof(m[j]));
            m[j].site = sym_i32(sym_nm(nm, "s", j));
            m[j].id = sym_i32(sym_nm(nm, "id", j));
        }
        /* known/unknown is a function of the site: site of m[0] -> unknown[0]; other sites share unknown[1] unless equal */
        for (j = 0; j < 3; j++) {
#ifdef MIXED_TIMES /* sensitivity self-test: without the data-model rule the order is not transitive */
            {
                char nm2[16];
                int u = sym_choice(sym_nm(nm2, "u", j), 0, 1);
                m[j].time = known_or_unknown(sym_nm(nm, "t", j), u);
            }
#else
            m[j].time = known_or_unknown(sym_nm(nm, "t", j), m[j].site == m[0].site ? unknown[0] : (m[j].site == m[1].site ? unknown[1] : 0));
#endif
        }
        CHECK3(cmp_mutation, m[0], m[1], m[2],
            m[0].site == m[1].site && m[0].id == m[1].id && (tsk_is_unknown_time(m[0].time) || m[0].time == m[1].time));
    } else if (which == 3) {
        mutation_canonical_sort_t m[3];
        int unknown[2];
        unknown[0] = sym_choice("unk0", 0, 1);
        unknown[1] = sym_choice("unk1", 0, 1);
        for (j = 0; j < 3; j++) {
            memset(&m[j], 0, sizeof(m[j]));
            m[j].mut.site = sym_i32(sym_nm(nm, "s", j));
            m[j].mut.id = sym_i32(sym_nm(nm, "id", j));
            m[j].mut.node = sym_i32(sym_nm(nm, "n", j));
            m[j].num_descendants = sym_i32(sym_nm(nm, "d", j));
        }
        for (j = 0; j < 3; j++) {
            m[j].mut.time = known_or_unknown(sym_nm(nm, "t", j),
                m[j].mut.site == m[0].mut.site ? unknown[0] : (m[j].mut.site == m[1].mut.site ? unknown[1] : 0));
        }
        CHECK3(cmp_mutation_canonical, m[0], m[1], m[2],
            m[0].mut.site == m[1].mut.site && m[0].mut.id == m[1].mut.id && m[0].mut.node == m[1].mut.node
                && m[0].num_descendants == m[1].num_descendants
                && (tsk_is_unknown_time(m[0].mut.time) || m[0].mut.time == m[1].mut.time));
    } else if (which == 4) {
        migration_sort_t g[3];
        for (j = 0; j < 3; j++) {
            memset(&g[j], 0, sizeof(g[j]));
            g[j].time = known_or_unknown(sym_nm(nm, "t", j), 0);
            g[j].left = known_or_unknown(sym_nm(nm, "l", j), 0);
            g[j].source = sym_i32(sym_nm(nm, "s", j));
            g[j].dest = sym_i32(sym_nm(nm, "d", j));
            g[j].node = sym_i32(sym_nm(nm, "n", j));
        }
        CHECK3(cmp_migration, g[0], g[1], g[2],
            g[0].time == g[1].time && g[0].left == g[1].left && g[0].source == g[1].source && g[0].dest == g[1].dest
                && g[0].node == g[1].node);
    } else if (which == 6) {
        /* the comparator behind build_index (insertion and removal orders) */
        index_sort_t x[3];
        for (j = 0; j < 3; j++) {
            memset(&x[j], 0, sizeof(x[j]));
            x[j].first = known_or_unknown(sym_nm(nm, "a", j), 0);
            x[j].second = known_or_unknown(sym_nm(nm, "b", j), 0);
            x[j].third = sym_i32(sym_nm(nm, "c", j));
            x[j].fourth = sym_i32(sym_nm(nm, "d", j));
        }
        CHECK3(cmp_index_sort, x[0], x[1], x[2],
            x[0].first == x[1].first && x[0].second == x[1].second && x[0].third == x[1].third && x[0].fourth == x[1].fourth);
    } else if (which == 7) {
        /* the comparator of the simplifier's segment queue */
        tsk_segment_t g[3];
        for (j = 0; j < 3; j++) {
            memset(&g[j], 0, sizeof(g[j]));
            g[j].left = known_or_unknown(sym_nm(nm, "l", j), 0);
            g[j].node = sym_i32(sym_nm(nm, "n", j));
        }
        CHECK3(cmp_segment, g[0], g[1], g[2], g[0].left == g[1].left && g[0].node == g[1].node);
    } else if (which == 8) {
        /* the comparator of EdgeTable.squash */
        tsk_edge_t e[3];
        for (j = 0; j < 3; j++) {
            memset(&e[j], 0, sizeof(e[j]));
            e[j].left = known_or_unknown(sym_nm(nm, "l", j), 0);
            e[j].parent = sym_i32(sym_nm(nm, "p", j));
            e[j].child = sym_i32(sym_nm(nm, "c", j));
        }
        CHECK3(cmp_edge_cl, e[0], e[1], e[2], e[0].left == e[1].left && e[0].parent == e[1].parent && e[0].child == e[1].child);
    } else {
        individual_canonical_sort_t v[3];
        for (j = 0; j < 3; j++) {
            memset(&v[j], 0, sizeof(v[j]));
            v[j].ind.id = sym_i32(sym_nm(nm, "id", j));
            v[j].first_node = sym_i32(sym_nm(nm, "f", j));
            v[j].num_descendants = sym_i32(sym_nm(nm, "d", j));
        }
        CHECK3(cmp_individual_canonical, v[0], v[1], v[2],
            v[0].ind.id == v[1].ind.id && v[0].first_node == v[1].first_node && v[0].num_descendants == v[1].num_descendants);
    }
    SYM_END();
    return 0;
}
#endif

#if KERNEL == 6
/* (C06) tsk_search_sorted on a strictly increasing array (tree breakpoints): the result is the number of elements
 * below the value, i.e. seek's tree index is the tree whose interval contains x */
#ifndef NA
#define NA 5
#endif
int
main_kernel(void)
{
    double arr[NA], x = sym_f64("x");
    int n = sym_choice("n", 1, NA), j, below = 0;
    tsk_size_t r;
    char nm[16];
    sym_assume(!(x != x));
    for (j = 0; j < n; j++) {
        arr[j] = sym_f64(sym_nm(nm, "a", j));
        sym_assume(!(arr[j] != arr[j]));
        if (j > 0) {
            sym_assume(arr[j - 1] < arr[j]);
        }
    }
    r = tsk_search_sorted(arr, (tsk_size_t) n, x);
    for (j = 0; j < n; j++) {
        below += arr[j] < x;
    }
    sym_assert(r == (tsk_size_t) below, "search_sorted returns the number of elements below the value");
    if (r < (tsk_size_t) n) {
        sym_assert(arr[r] >= x && (r == 0 || arr[r - 1] < x), "the result is the insertion point");
        if (r + 1 < (tsk_size_t) n && arr[r] == x) {
            sym_reach("exact");
        }
    } else {
        sym_reach("past-end");
    }
    sym_assert(tsk_search_sorted(arr, 0, x) == 0, "an empty array gives 0");
    SYM_END();
    return 0;
}
#endif
