/* Helpers shared by the harnesses: symbolic table construction and the naive
 * "what the tables say" oracle for marginal trees. */
#ifndef H_COMMON_H
#define H_COMMON_H
#include <math.h>
#include <stdlib.h>
#include <string.h>
#include <tskit/tables.h>
#include <tskit/trees.h>
#include <tskit/genotypes.h>
#include "sym.h"

#ifdef VACUITY_TWIN
#define SYM_END()                                                                       \
    do {                                                                                \
        sym_reach("end");                                                               \
        sym_assert(0, "vacuity-twin");                                                  \
    } while (0)
#else
#define SYM_END() sym_reach("end")
#endif

#define MAXN 8
#define MAXE 8

/* A double that is an integer in [-128,127] or, when sp selects this slot, a special value. */
static double
h_special(int kind)
{
    switch (kind) {
        case 0:
            return NAN;
        case 1:
            return INFINITY;
        default:
            return -INFINITY;
    }
}

/* the naive tables -> tree oracle ------------------------------------------ */
typedef struct {
    int nn, ne;
    double time[MAXN];
    tsk_flags_t flags[MAXN];
    double left[MAXE], right[MAXE];
    tsk_id_t parent[MAXE], child[MAXE];
    double L;
} h_tables_t;

/* parent of u at position x according to the rows (TSK_NULL if none); *eid gets the edge id */
static tsk_id_t
h_parent_at(const h_tables_t *T, tsk_id_t u, double x, tsk_id_t *eid)
{
    int j;
    tsk_id_t p = TSK_NULL;
    if (eid != NULL) {
        *eid = TSK_NULL;
    }
    for (j = 0; j < T->ne; j++) {
        if (T->child[j] == u && T->left[j] <= x && x < T->right[j]) {
            p = T->parent[j];
            if (eid != NULL) {
                *eid = j;
            }
        }
    }
    return p;
}

/* is a an ancestor-or-self of u at x (bounded walk) */
static int
h_is_anc(const h_tables_t *T, tsk_id_t a, tsk_id_t u, double x)
{
    int k;
    for (k = 0; k <= T->nn && u != TSK_NULL; k++) {
        if (u == a) {
            return 1;
        }
        u = h_parent_at(T, u, x, NULL);
    }
    return 0;
}

static int
h_num_samples_below(const h_tables_t *T, tsk_id_t a, double x)
{
    int u, n = 0;
    for (u = 0; u < T->nn; u++) {
        if ((T->flags[u] & TSK_NODE_IS_SAMPLE) && h_is_anc(T, a, u, x)) {
            n++;
        }
    }
    return n;
}

static int
h_num_children(const h_tables_t *T, tsk_id_t a, double x)
{
    int u, n = 0;
    for (u = 0; u < T->nn; u++) {
        if (h_parent_at(T, u, x, NULL) == a) {
            n++;
        }
    }
    return n;
}

#endif
