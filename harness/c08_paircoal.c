/* C08 (fourth narrow claim): tsk_treeseq_pair_coalescence_counts, per node ("nodes" time windows), span_normalise and
 * pair_normalise off, one sample set (pairs within) or two (pairs between), windows [0,b,L] with b symbolic, equals
 * the definition evaluated naively: for every window, index and node, the sum over trees of
 * span x number of sample pairs whose most recent common ancestor is that node (a pair one of whose members is an
 * ancestor of the other is not counted).
 * All coordinates are even integers (COORD_SCALE 2): the algorithm halves spans, and the halves stay integers. */
#define COORD_SCALE 2
#include "treegen.h"

static h_tables_t T;

static double
overlap(double a, double b, double lo, double hi)
{
    double l = a > lo ? a : lo, r = b < hi ? b : hi;
    return r > l ? r - l : 0;
}

int
main_c08(void)
{
    tsk_table_collection_t t;
    tsk_treeseq_t ts;
    tsk_tree_t tree;
    tsk_id_t samples[MAXN], sets[MAXN], idx[2], node_bin_map[MAXN];
    tsk_size_t sizes[2];
    int set_of[MAXN];
    double win1[2], win2[3], res1[MAXN], res2[2 * MAXN], naive[2][MAXN];
    int ret, u, w, ns = 0, pat, nsets, k, i, j;

    if (h_build_treeseq(&t, &ts, &T) != 0) {
        return 0;
    }
    for (u = 0; u < NN; u++) {
        set_of[u] = -1;
        node_bin_map[u] = u;
        if (T.flags[u] & TSK_NODE_IS_SAMPLE) {
            samples[ns++] = u;
        }
    }
    if (ns < 2) {
        sym_assume(0);
    }
    /* 0: pairs within the set of all samples; 1: within all but the first; 2: between {first} and {rest} */
    pat = sym_choice("sets", 0, 2);
    nsets = pat == 2 ? 2 : 1;
    k = 0;
    if (pat == 2) {
        sets[k++] = samples[0];
        set_of[samples[0]] = 0;
    }
    for (u = (pat == 0 ? 0 : 1); u < ns; u++) {
        sets[k++] = samples[u];
        set_of[samples[u]] = nsets - 1;
    }
    sizes[0] = pat == 2 ? 1 : (tsk_size_t) k;
    sizes[1] = pat == 2 ? (tsk_size_t) k - 1 : 0;
    idx[0] = 0;
    idx[1] = nsets - 1;
    win1[0] = 0;
    win1[1] = SEQ_L;
    win2[0] = 0;
    win2[1] = 2 * sym_f64_int("b");
    sym_assume(0 < win2[1] && win2[1] < SEQ_L);
    win2[2] = SEQ_L;

    ret = tsk_treeseq_pair_coalescence_counts(&ts, (tsk_size_t) nsets, sizes, sets, 1, idx, 1, win1, NN, node_bin_map, 0, res1);
    sym_assert(ret == 0, "pair_coalescence_counts on one window");
    ret = tsk_treeseq_pair_coalescence_counts(&ts, (tsk_size_t) nsets, sizes, sets, 1, idx, 2, win2, NN, node_bin_map, 0, res2);
    sym_assert(ret == 0, "pair_coalescence_counts on two windows");

    for (w = 0; w < 2; w++) {
        for (u = 0; u < NN; u++) {
            naive[w][u] = 0;
        }
    }
    ret = tsk_tree_init(&tree, &ts, 0);
    sym_assume(ret == 0);
    for (ret = tsk_tree_first(&tree); ret == TSK_TREE_OK; ret = tsk_tree_next(&tree)) {
        for (i = 0; i < ns; i++) {
            for (j = i + 1; j < ns; j++) {
                tsk_id_t a = samples[i], b = samples[j], x, y, m = TSK_NULL;
                int ka, kb, sa = set_of[a], sb = set_of[b];
                if (sa < 0 || sb < 0) {
                    continue;
                }
                if (nsets == 2 && sa == sb) {
                    continue; /* between: exactly one member in each set */
                }
                for (x = a, ka = 0; ka <= NN && x != TSK_NULL && m == TSK_NULL; x = tree.parent[x], ka++) {
                    for (y = b, kb = 0; kb <= NN && y != TSK_NULL; y = tree.parent[y], kb++) {
                        if (x == y) {
                            m = x;
                            break;
                        }
                    }
                }
                if (m == a || m == b) {
                    /* one sample is a direct ancestor of the other: by the maintainers' reading (test_coalrate.py,
                     * test_internal_samples) such a pair does not coalesce anywhere */
                    sym_reach("at-a-sample");
                    continue;
                }
                if (m != TSK_NULL) {
                    for (w = 0; w < 2; w++) {
                        naive[w][m] += overlap(tree.interval.left, tree.interval.right, win2[w], win2[w + 1]);
                    }
                    sym_reach("coalesces");
                }
            }
        }
    }
    tsk_tree_free(&tree);
    for (u = 0; u < NN; u++) {
        sym_assert(res2[u] == naive[0][u] && res2[NN + u] == naive[1][u], "coalescing pairs per node equal the definition in every window");
        sym_assert(res1[u] == res2[u] + res2[NN + u], "the coarse window equals the sum of its refinement");
    }
    tsk_treeseq_free(&ts);
    tsk_table_collection_free(&t);
    SYM_END();
    return 0;
}
