/* Symbolic *valid* tree sequences at small scope, built the way users build
 * them: real add_row, real build_index, and the real tsk_treeseq_init as the
 * validity filter.  Node ids are split eagerly (sym_choice), coordinates stay
 * solver variables, node times come from a short list of concrete profiles
 * (DESIGN.md §2).  The rows are mirrored into an h_tables_t for the oracles. */
#ifndef H_TREEGEN_H
#define H_TREEGEN_H
#include "common.h"

#ifndef NN
#define NN 4
#endif
#ifndef NE
#define NE 3
#endif
#ifndef NS
#define NS 0
#endif
#ifndef TP_LO
#define TP_LO 0
#endif
#ifndef TP_HI
#define TP_HI 1
#endif
#ifndef SP_LO
#define SP_LO 0
#endif
#ifndef SP_HI
#define SP_HI 1
#endif
#ifndef NE_MIN
#define NE_MIN NE /* number of edges is a choice in [NE_MIN, NE] */
#endif
#ifndef COORD_SCALE
#define COORD_SCALE 1 /* every coordinate is a multiple of this (2: halves of spans stay integers) */
#endif
#define SEQ_L (COORD_SCALE * (2 * NE + 1))
#ifndef SITE_ANC
#define SITE_ANC "A"
#define SITE_ANC_LEN 1
#endif

/* time profiles: index by node id (samples first) */
static const double h_time_profiles[7][MAXN] = {
    { 0, 0, 1, 2, 3, 4, 5, 6 },   /* strictly increasing internal nodes */
    { 0, 0, 1, 1, 2, 2, 3, 3 },   /* ties among internal nodes */
    { 0, 1, 1, 2, 3, 4, 5, 6 },   /* samples at different times; sample/internal tie */
    { -3, -3, -2, -1, 0, 1, 2, 3 }, /* negative times */
    { 0, 0, 0, 1, 2, 3, 4, 5 },   /* three nodes at time zero */
    { 0, 0.25, 1.5, 2.25, 4.75, 5.5, 6.5, 7.25 }, /* fractional times (dyadic: exact in binary64) */
    { 0, 1, 2, 3, 4, 5, 6, 7 },   /* all distinct: chains through every node are possible */
};
/* sample profiles: bit u set <=> node u is flagged as a sample */
static const int h_sample_profiles[6] = {
    0x3,                  /* nodes 0,1 */
    0x7,                  /* nodes 0,1,2 */
    0x3 | (1 << (NN - 1)), /* 0,1 and the last (oldest) node: internal sample */
    0x1,                  /* a single sample */
    0x0,                  /* no samples at all */
    0xff,                 /* every node is a sample (nested internal samples) */
};

static double site_pos[NS + 1];
#ifdef H_EXTRA_ROWS
static void h_extra_rows(tsk_table_collection_t *t, h_tables_t *T);
#endif
#ifdef H_NODE_REFS
static void h_pre_rows(tsk_table_collection_t *t);
static tsk_id_t h_node_pop(int j);
static tsk_id_t h_node_ind(int j);
#endif

/* Returns 0 when a valid tree sequence was built in *ts; otherwise the path ended
 * with tag "reject" (callers return). */
static int
h_build_treeseq(tsk_table_collection_t *t, tsk_treeseq_t *ts, h_tables_t *T)
{
    int ret, j, tp, sp, ne;
    char nm[16];

    ret = tsk_table_collection_init(t, 0);
    sym_assume(ret == 0);
    t->sequence_length = SEQ_L;
    T->L = SEQ_L;
    T->nn = NN;
#ifdef FIXED_TABLE
    /* one concrete 4-node, 4-edge, 5-tree sequence with an internal sample, a gap and an empty last tree */
    static const tsk_id_t ft_p[4] = { 1, 2, 3, 3 }, ft_c[4] = { 0, 0, 1, 2 };
    static const double ft_l[4] = { 0, COORD_SCALE * 4, 0, COORD_SCALE * 2 }, ft_r[4] = { COORD_SCALE * 3, COORD_SCALE * 7, COORD_SCALE * 7, COORD_SCALE * 7 };
    tp = 2;
    sp = 1;
    ne = 4;
#else
    tp = sym_choice("tprof", TP_LO, TP_HI);
    sp = sym_choice("sprof", SP_LO, SP_HI);
    ne = NE_MIN == NE ? NE : sym_choice("ne", NE_MIN, NE);
#endif
    T->ne = ne;
    for (j = 0; j < NN; j++) {
        T->time[j] = h_time_profiles[tp][j];
#ifdef SAMPLE_FLAG_EXTRA
        /* sample nodes also carry another (user-defined) flag bit */
        T->flags[j] = (h_sample_profiles[sp] >> j) & 1 ? (TSK_NODE_IS_SAMPLE | SAMPLE_FLAG_EXTRA) : 0;
#else
        T->flags[j] = (h_sample_profiles[sp] >> j) & 1 ? TSK_NODE_IS_SAMPLE : 0;
#endif
#ifdef H_NODE_REFS
        /* the harness supplies population / individual rows (h_pre_rows) and the references of node j */
        if (j == 0) {
            h_pre_rows(t);
        }
        ret = tsk_node_table_add_row(&t->nodes, T->flags[j], T->time[j], h_node_pop(j), h_node_ind(j), NULL, 0);
#else
        ret = tsk_node_table_add_row(&t->nodes, T->flags[j], T->time[j], -1, -1, NULL, 0);
#endif
        sym_assume(ret == j);
    }
    for (j = 0; j < ne; j++) {
#ifdef FIXED_TABLE
        T->parent[j] = ft_p[j];
        T->child[j] = ft_c[j];
        T->left[j] = ft_l[j];
        T->right[j] = ft_r[j];
        ret = tsk_edge_table_add_row(
            &t->edges, T->left[j], T->right[j], T->parent[j], T->child[j], NULL, 0);
        sym_assume(ret == j);
        continue;
#endif
#ifdef PIN_P
        {
            /* structure pinned by the job, coordinates stay symbolic */
            static const tsk_id_t pin_p[] = PIN_P, pin_c[] = PIN_C;
            T->parent[j] = pin_p[j];
            T->child[j] = pin_c[j];
        }
#else
        T->parent[j] = sym_choice(sym_nm(nm, "p", j), 1, NN - 1);
        T->child[j] = sym_choice(sym_nm(nm, "c", j), 0, NN - 1);
#endif
        /* necessary for validity: prune concretely */
        if (!(T->time[T->child[j]] < T->time[T->parent[j]])) {
            sym_assume(0);
        }
        if (j > 0 && T->time[T->parent[j]] < T->time[T->parent[j - 1]]) {
            sym_assume(0);
        }
#ifdef ONE_TREE
        /* every edge spans the whole genome: one tree, structure only */
        T->left[j] = 0;
        T->right[j] = SEQ_L;
#else
        T->left[j] = COORD_SCALE * sym_f64_int(sym_nm(nm, "l", j));
        T->right[j] = COORD_SCALE * sym_f64_int(sym_nm(nm, "r", j));
        sym_assume(0 <= T->left[j] && T->left[j] < T->right[j] && T->right[j] <= SEQ_L);
#ifdef PIN_RIGHT_MASK
        if ((PIN_RIGHT_MASK >> j) & 1) {
            sym_assume(T->right[j] == SEQ_L); /* these edges reach the end of the genome */
        }
#endif
#endif
        ret = tsk_edge_table_add_row(
            &t->edges, T->left[j], T->right[j], T->parent[j], T->child[j], NULL, 0);
        sym_assume(ret == j);
    }
    for (j = 0; j < NS; j++) {
        site_pos[j] = COORD_SCALE * sym_f64_int(sym_nm(nm, "x", j));
        sym_assume(0 <= site_pos[j] && site_pos[j] < SEQ_L);
        if (j > 0) {
            sym_assume(site_pos[j - 1] < site_pos[j]);
        }
        ret = tsk_site_table_add_row(&t->sites, site_pos[j], SITE_ANC, SITE_ANC_LEN, NULL, 0);
        sym_assume(ret == j);
    }
#ifdef H_EXTRA_ROWS
    h_extra_rows(t, T); /* harness-specific rows (mutations, individuals, ...) added before indexing */
#endif
    ret = tsk_table_collection_build_index(t, 0);
    if (ret != 0) {
        sym_reach("reject");
        return 1;
    }
#ifdef H_COMPUTE_MUTATION_PARENTS
    ret = tsk_table_collection_compute_mutation_parents(t, 0);
    if (ret != 0) {
        sym_reach("reject");
        return 1;
    }
#endif
    ret = tsk_treeseq_init(ts, t, 0);
    if (ret != 0) {
        sym_reach("reject");
        return 1;
    }
    sym_reach("accept");
    return 0;
}

/* oracle marginal tree at x */
typedef struct {
    tsk_id_t parent[MAXN + 1];
    tsk_id_t edge[MAXN + 1];
    int nchild[MAXN + 1];
    int nsamp[MAXN + 1]; /* samples in the subtree, by the bounded walk */
} h_otree_t;

static void
h_oracle_tree(const h_tables_t *T, double x, h_otree_t *O)
{
    int u, v, k;
    for (u = 0; u < T->nn; u++) {
        O->parent[u] = h_parent_at(T, u, x, &O->edge[u]);
        O->nchild[u] = 0;
        O->nsamp[u] = 0;
    }
    for (u = 0; u < T->nn; u++) {
        if (O->parent[u] != TSK_NULL) {
            O->nchild[O->parent[u]]++;
        }
        if (T->flags[u] & TSK_NODE_IS_SAMPLE) {
            v = u;
            for (k = 0; k <= T->nn && v != TSK_NULL; k++) {
                O->nsamp[v]++;
                v = O->parent[v];
            }
        }
    }
}

static int
h_o_is_anc(const h_otree_t *O, int nn, tsk_id_t a, tsk_id_t u)
{
    int k;
    for (k = 0; k <= nn && u != TSK_NULL; k++) {
        if (u == a) {
            return 1;
        }
        u = O->parent[u];
    }
    return 0;
}
#endif
