/* C18 (C half): tsk_convert_newick writes, for any root, exactly the topology
 * below that root with the documented labels and branch lengths, succeeds iff
 * the buffer can hold the text, and never writes past the buffer.
 * Trees: every one-tree / multi-tree class of treegen.h; root, precision,
 * label style enumerated; buffer size a solver variable. */
#include "treegen.h"
#include <tskit/convert.h>

#define BUFSZ 160

static h_tables_t T;
static char expect[BUFSZ];
static int elen;

static void
emit(const char *s)
{
    while (*s) {
        expect[elen++] = *s++;
    }
    expect[elen] = 0;
}

/* independent recursive writer over the tree's child lists */
static void
gen(const tsk_tree_t *tree, tsk_id_t u, tsk_id_t root, int precision, int legacy)
{
    char tmp[48];
    tsk_id_t c;
    if (tree->left_child[u] != TSK_NULL) {
        emit("(");
        for (c = tree->left_child[u]; c != TSK_NULL; c = tree->right_sib[c]) {
            gen(tree, c, root, precision, legacy);
            emit(c == tree->right_child[u] ? ")" : ",");
        }
    }
    if (legacy) {
        if (tree->left_child[u] == TSK_NULL) {
            snprintf(tmp, sizeof(tmp), "%d", (int) u + 1);
            emit(tmp);
        }
    } else if (T.flags[u] & TSK_NODE_IS_SAMPLE) {
        snprintf(tmp, sizeof(tmp), "n%d", (int) u);
        emit(tmp);
    }
    if (u != root) {
        snprintf(tmp, sizeof(tmp), ":%.*f", precision, T.time[tree->parent[u]] - T.time[u]);
        emit(tmp);
    }
}

int
main_c18(void)
{
    tsk_table_collection_t t;
    tsk_treeseq_t ts;
    tsk_tree_t tree;
    char buf[BUFSZ + 8], small[BUFSZ + 8];
    int ret, precision, legacy, k, which;
    tsk_id_t root;
    int32_t size;

    if (h_build_treeseq(&t, &ts, &T) != 0) {
        return 0;
    }
    ret = tsk_tree_init(&tree, &ts, 0);
    sym_assume(ret == 0);
    which = sym_choice("tree", 0, 1);
    ret = which ? tsk_tree_last(&tree) : tsk_tree_first(&tree);
    sym_assume(ret == TSK_TREE_OK);
    root = sym_choice("root", 0, NN - 1);
    precision = sym_choice("precision", 0, 2);
    legacy = sym_choice("legacy", 0, 1);
    elen = 0;
    gen(&tree, root, root, precision, legacy);
    emit(";");
    memset(buf, '#', sizeof(buf));
    ret = tsk_convert_newick(&tree, root, (unsigned int) precision, legacy ? TSK_NEWICK_LEGACY_MS_LABELS : 0, BUFSZ, buf);
    sym_assert(ret == 0, "as_newick succeeds for any node as root");
    sym_assert(strcmp(buf, expect) == 0, "newick text is exactly the topology below the root with labels and branch lengths");
    /* buffer handling: size is a solver variable */
    size = sym_i32("size");
    sym_assume(size >= 0 && size <= BUFSZ);
    memset(small, '#', sizeof(small));
    ret = tsk_convert_newick(&tree, root, (unsigned int) precision, legacy ? TSK_NEWICK_LEGACY_MS_LABELS : 0, (size_t) size, small);
    sym_assert(ret == 0 || ret == TSK_ERR_BUFFER_OVERFLOW, "either success or the buffer overflow error");
    sym_assert((ret == 0) == (size >= elen + 1), "conversion succeeds exactly when the buffer can hold the text and its terminator");
    if (ret == 0) {
        sym_assert(strcmp(small, expect) == 0, "same text in an exactly fitting buffer");
    }
    for (k = 0; k < 8; k++) {
        sym_assert(small[BUFSZ + k] == '#', "nothing is written past the caller's buffer");
    }
    if (tree.left_child[root] != TSK_NULL) {
        sym_reach("internal-root");
    }
    tsk_tree_free(&tree);
    tsk_treeseq_free(&ts);
    tsk_table_collection_free(&t);
    SYM_END();
    return 0;
}
