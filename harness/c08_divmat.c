/* C08 (third narrow claim): tsk_treeseq_divergence_matrix between the individual samples (singleton sample sets),
 * branch and site mode, span_normalise off, windows [0,b,L] with b symbolic, equals the definition evaluated
 * naively: branch = sum over trees of span x (path length from u and from v up to their MRCA; to their own roots when
 * they have none); site = number of sites in the window at which the two samples carry different alleles.
 * The matrix is symmetric with a zero diagonal and additive over the window refinement. */
#define H_EXTRA_ROWS
#define H_COMPUTE_MUTATION_PARENTS
#define SITE_ANC "AT"
#define SITE_ANC_LEN 2
#include "treegen.h"

#ifndef NM
#define NM 1
#endif

static h_tables_t T;
static tsk_id_t msite[NM + 1], mnode[NM + 1];
static int mstate[NM + 1];
static const char *states[3] = { "AT", "A", "C" };
static const int state_len[3] = { 2, 1, 1 };

static void
h_extra_rows(tsk_table_collection_t *t, h_tables_t *Tp)
{
    int j, ret;
    char nm[16];
    (void) Tp;
    for (j = 0; j < NM; j++) {
        msite[j] = sym_choice(sym_nm(nm, "ms", j), j == 0 ? 0 : msite[j - 1], NS - 1);
        mnode[j] = sym_choice(sym_nm(nm, "mn", j), 0, NN - 1);
        mstate[j] = 1 + sym_choice(sym_nm(nm, "md", j), 0, 1);
        ret = tsk_mutation_table_add_row(&t->mutations, msite[j], mnode[j], -1, TSK_UNKNOWN_TIME, states[mstate[j]],
            (tsk_size_t) state_len[mstate[j]], NULL, 0);
        sym_assume(ret == j);
    }
}

static double
overlap(double a, double b, double lo, double hi)
{
    double l = a > lo ? a : lo, r = b < hi ? b : hi;
    return r > l ? r - l : 0;
}

static int
allele_of(int s, tsk_id_t u)
{
    double x = site_pos[s];
    int k, j;
    for (k = 0; k <= NN && u != TSK_NULL; k++) {
        for (j = NM - 1; j >= 0; j--) {
            if (msite[j] == s && mnode[j] == u) {
                return mstate[j];
            }
        }
        u = h_parent_at(&T, u, x, NULL);
    }
    return 0;
}

int
main_c08(void)
{
    tsk_table_collection_t t;
    tsk_treeseq_t ts;
    tsk_tree_t tree;
    tsk_id_t samples[MAXN];
    double win1[2], win2[3], res1[MAXN * MAXN], res2[2 * MAXN * MAXN], naive[2][MAXN * MAXN];
    int ret, u, w, ns = 0, mode, i, j, c;

    if (h_build_treeseq(&t, &ts, &T) != 0) {
        return 0;
    }
    for (u = 0; u < NN; u++) {
        if (T.flags[u] & TSK_NODE_IS_SAMPLE) {
            samples[ns++] = u;
        }
    }
    if (ns < 2) {
        sym_assume(0);
    }
    win1[0] = 0;
    win1[1] = SEQ_L;
    win2[0] = 0;
    win2[1] = sym_f64_int("b");
    sym_assume(0 < win2[1] && win2[1] < SEQ_L);
    win2[2] = SEQ_L;
    for (mode = 0; mode < (NS > 0 ? 2 : 1); mode++) {
        tsk_flags_t opt = mode == 0 ? TSK_STAT_BRANCH : TSK_STAT_SITE;
        ret = tsk_treeseq_divergence_matrix(&ts, 0, NULL, NULL, 1, win1, opt, res1);
        sym_assert(ret == 0, "divergence_matrix on one window");
        ret = tsk_treeseq_divergence_matrix(&ts, 0, NULL, NULL, 2, win2, opt, res2);
        sym_assert(ret == 0, "divergence_matrix on two windows");
        for (w = 0; w < 2; w++) {
            for (c = 0; c < MAXN * MAXN; c++) {
                naive[w][c] = 0;
            }
        }
        if (mode == 0) {
            ret = tsk_tree_init(&tree, &ts, 0);
            sym_assume(ret == 0);
            for (ret = tsk_tree_first(&tree); ret == TSK_TREE_OK; ret = tsk_tree_next(&tree)) {
                for (i = 0; i < ns; i++) {
                    for (j = 0; j < ns; j++) {
                        tsk_id_t a = samples[i], b = samples[j], x, y, ra = a, rb = b, m = TSK_NULL;
                        int ka, kb;
                        double d;
                        if (i == j) {
                            continue;
                        }
                        for (x = a, ka = 0; ka <= NN && x != TSK_NULL && m == TSK_NULL; x = tree.parent[x], ka++) {
                            ra = x;
                            for (y = b, kb = 0; kb <= NN && y != TSK_NULL; y = tree.parent[y], kb++) {
                                if (x == y) {
                                    m = x;
                                    break;
                                }
                            }
                        }
                        for (y = b, kb = 0; kb <= NN && y != TSK_NULL; y = tree.parent[y], kb++) {
                            rb = y;
                        }
                        for (x = a, ka = 0; ka <= NN && x != TSK_NULL; x = tree.parent[x], ka++) {
                            ra = x;
                        }
                        if (m != TSK_NULL) {
                            ra = rb = m;
                            sym_reach("mrca");
                        } else {
                            sym_reach("disconnected");
                        }
                        d = (T.time[ra] - T.time[a]) + (T.time[rb] - T.time[b]);
                        for (w = 0; w < 2; w++) {
                            naive[w][i * ns + j] += overlap(tree.interval.left, tree.interval.right, win2[w], win2[w + 1]) * d;
                        }
                    }
                }
            }
            tsk_tree_free(&tree);
        } else {
            int s;
            for (s = 0; s < NS; s++) {
                w = site_pos[s] < win2[1] ? 0 : 1;
                for (i = 0; i < ns; i++) {
                    for (j = 0; j < ns; j++) {
                        if (i != j && allele_of(s, samples[i]) != allele_of(s, samples[j])) {
                            naive[w][i * ns + j] += 1;
                            sym_reach("differ");
                        }
                    }
                }
            }
        }
        for (i = 0; i < ns; i++) {
            for (j = 0; j < ns; j++) {
                c = i * ns + j;
                sym_assert(res2[c] == naive[0][c] && res2[ns * ns + c] == naive[1][c],
                    mode == 0 ? "branch divergence equals its definition in every window" : "site divergence equals its definition in every window");
                sym_assert(res1[c] == res2[c] + res2[ns * ns + c], "the coarse window equals the sum of its refinement");
                sym_assert(res2[c] == res2[j * ns + i], "the matrix is symmetric");
            }
            sym_assert(res1[i * ns + i] == 0, "zero diagonal for single samples");
        }
    }
    tsk_treeseq_free(&ts);
    tsk_table_collection_free(&t);
    SYM_END();
    return 0;
}
