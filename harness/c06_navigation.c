/* C06: after any sequence of first/last/next/prev/seek/seek_index/clear (and
 * copy) a tree's observable state equals that of a fresh tree moved directly
 * to the same index (up to child order); next/prev return OK exactly when the
 * new state is non-null; seek(x) lands on the tree containing x.
 * Operation codes and node ids are enumerated, coordinates and the seek
 * position are solver variables. */
#include "treegen.h"

#ifndef KOPS
#define KOPS 3
#endif
#define MAXT (2 * NE + 2)
#ifndef OPTS_LO
#define OPTS_LO 0
#endif

static h_tables_t T;

static int
same_set(const tsk_tree_t *a, const tsk_tree_t *b, tsk_id_t u)
{
    /* children of u as sets */
    tsk_id_t v, w;
    int k, m, found;
    if (a->num_children[u] != b->num_children[u]) {
        return 0;
    }
    for (v = a->left_child[u], k = 0; v != TSK_NULL && k <= NN; v = a->right_sib[v], k++) {
        found = 0;
        for (w = b->left_child[u], m = 0; w != TSK_NULL && m <= NN; w = b->right_sib[w], m++) {
            found |= w == v;
        }
        if (!found) {
            return 0;
        }
    }
    return 1;
}

static int
sample_list_has(const tsk_tree_t *t, tsk_id_t u, tsk_id_t sample_index)
{
    tsk_id_t idx = t->left_sample[u];
    int k;
    for (k = 0; k <= NN && idx != TSK_NULL; k++) {
        if (idx == sample_index) {
            return 1;
        }
        if (idx == t->right_sample[u]) {
            break;
        }
        idx = t->next_sample[idx];
    }
    return 0;
}

static void
compare(const tsk_tree_t *a, const tsk_tree_t *b, int opts, const char *who)
{
    tsk_id_t u;
    int j, ns = (int) a->tree_sequence->num_samples;
    (void) who;
    sym_assert(a->index == b->index, "same index");
    sym_assert(a->interval.left == b->interval.left && a->interval.right == b->interval.right, "same interval");
    sym_assert(a->num_edges == b->num_edges, "same num_edges");
    sym_assert(a->sites_length == b->sites_length, "same number of sites");
    if (a->sites_length == b->sites_length && a->sites_length > 0) {
        sym_assert(a->sites[0].id == b->sites[0].id, "same sites");
    }
    for (u = 0; u <= NN; u++) {
        if (u < NN) {
            sym_assert(a->parent[u] == b->parent[u], "same parent");
            sym_assert(a->edge[u] == b->edge[u], "same edge");
        }
        sym_assert(a->num_samples[u] == b->num_samples[u], "same num_samples");
        sym_assert(a->num_tracked_samples[u] == b->num_tracked_samples[u], "same num_tracked_samples");
        sym_assert(same_set(a, b, u) && same_set(b, a, u), "same children (as sets)");
        if (opts & TSK_SAMPLE_LISTS) {
            for (j = 0; j < ns; j++) {
                sym_assert(sample_list_has(a, u, j) == sample_list_has(b, u, j), "same sample list contents");
            }
        }
    }
}

int
main_c06(void)
{
    tsk_table_collection_t t;
    tsk_treeseq_t ts;
    tsk_tree_t tree, ref, cp;
    int ret, k, op, nt, opts;
    tsk_id_t tracked[1] = { 0 };
    char nm[16];
    double x;

    if (h_build_treeseq(&t, &ts, &T) != 0) {
        return 0;
    }
    nt = (int) tsk_treeseq_get_num_trees(&ts);
    opts = sym_choice("opts", OPTS_LO, 1) ? TSK_SAMPLE_LISTS : 0;
    ret = tsk_tree_init(&tree, &ts, opts);
    sym_assume(ret == 0);
    ret = tsk_tree_init(&ref, &ts, opts);
    sym_assume(ret == 0);
    if (T.flags[0] & TSK_NODE_IS_SAMPLE) {
        ret = tsk_tree_set_tracked_samples(&tree, 1, tracked);
        sym_assume(ret == 0);
        ret = tsk_tree_set_tracked_samples(&ref, 1, tracked);
        sym_assume(ret == 0);
    }
    for (k = 0; k < KOPS; k++) {
        op = sym_choice(sym_nm(nm, "op", k), 0, 6);
#ifdef FIRST_OP_MOVES
        /* from the null state next/prev are first/last and clear is a no-op: skip those as the first operation */
        if (k == 0 && (op == 2 || op == 3 || op == 6)) {
            sym_assume(0);
        }
#endif
        switch (op) {
            case 0:
                ret = tsk_tree_first(&tree);
                sym_assert(ret == TSK_TREE_OK && tree.index == 0, "first() lands on tree 0");
                break;
            case 1:
                ret = tsk_tree_last(&tree);
                sym_assert(ret == TSK_TREE_OK && tree.index == nt - 1, "last() lands on the last tree");
                break;
            case 2: {
                int before = (int) tree.index;
                ret = tsk_tree_next(&tree);
                sym_assert(ret == TSK_TREE_OK || ret == 0, "next() returns OK or 0");
                sym_assert((ret == TSK_TREE_OK) == (tree.index != -1), "next() is OK exactly when the tree is non-null");
                sym_assert(tree.index == (before == nt - 1 ? -1 : before + 1), "next() moves one tree right (null wraps to first)");
                break;
            }
            case 3: {
                int before = (int) tree.index;
                ret = tsk_tree_prev(&tree);
                sym_assert(ret == TSK_TREE_OK || ret == 0, "prev() returns OK or 0");
                sym_assert((ret == TSK_TREE_OK) == (tree.index != -1), "prev() is OK exactly when the tree is non-null");
                sym_assert(tree.index == (before == -1 ? nt - 1 : before - 1), "prev() moves one tree left (null wraps to last)");
                break;
            }
            case 4:
                x = sym_f64_int(sym_nm(nm, "x", k));
                sym_assume(0 <= x && x < SEQ_L);
                ret = tsk_tree_seek(&tree, x, 0);
                sym_assert(ret == 0, "seek(x) succeeds for 0 <= x < L");
                sym_assert(tree.interval.left <= x && x < tree.interval.right, "seek(x) lands on the tree containing x");
                break;
            case 5: {
                int i = sym_choice(sym_nm(nm, "i", k), 0, MAXT - 1);
                if (i >= nt) {
                    sym_assume(0);
                }
                ret = tsk_tree_seek_index(&tree, i, 0);
                sym_assert(ret == 0 && tree.index == i, "seek_index(i) lands on tree i");
                break;
            }
            case 6:
                ret = tsk_tree_clear(&tree);
                sym_assert(ret == 0 && tree.index == -1, "clear() gives the null tree");
                break;
        }
    }
    /* reference: a fresh tree moved directly to the same index */
    if (tree.index != -1) {
        ret = tsk_tree_seek_index(&ref, tree.index, 0);
        sym_assert(ret == 0, "reference seek_index");
        sym_reach("nonnull");
    } else {
        sym_reach("null");
    }
    compare(&tree, &ref, opts, "fresh");
    if (tree.index != -1) {
        /* second reference reached by plain iteration */
        tsk_tree_t it;
        ret = tsk_tree_init(&it, &ts, opts);
        sym_assume(ret == 0);
        if (T.flags[0] & TSK_NODE_IS_SAMPLE) {
            tsk_tree_set_tracked_samples(&it, 1, tracked);
        }
        for (ret = tsk_tree_first(&it); ret == TSK_TREE_OK && it.index != tree.index; ret = tsk_tree_next(&it)) {
        }
        compare(&tree, &it, opts, "iterated");
        tsk_tree_free(&it);
    }
    ret = tsk_tree_init(&cp, &ts, opts);
    sym_assume(ret == 0);
    ret = tsk_tree_copy(&tree, &cp, TSK_NO_INIT);
    sym_assert(ret == 0, "copy");
    compare(&cp, &tree, opts, "copy");
    tsk_tree_free(&cp);
    tsk_tree_free(&ref);
    tsk_tree_free(&tree);
    tsk_treeseq_free(&ts);
    tsk_table_collection_free(&t);
    SYM_END();
    return 0;
}
