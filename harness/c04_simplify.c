/* C04: simplify(samples, options) returns a valid tree sequence whose ancestry
 * among the chosen samples, at every position, is the original ancestry with
 * only the nodes removed that the options allow; node_map, sample flags and
 * sample genotypes are preserved; simplifying again changes nothing.
 * Input: every valid tree sequence class from treegen.h (+ sites and
 * mutations), the sample list is an enumerated ordered list of distinct
 * nodes (non-samples allowed), options are run one after the other.
 * Oracle: per position class, from the naive input tree (docs of simplify). */
#define H_EXTRA_ROWS
#define H_COMPUTE_MUTATION_PARENTS
#include "treegen.h"

#ifndef NM
#define NM 1
#endif
#ifndef MAXS
#define MAXS 3
#endif
#ifndef FULL_ALL
#define FULL_ALL 0
#endif

static h_tables_t T;
static tsk_id_t msite[NM + 1], mnode[NM + 1];

#ifdef H_NODE_REFS
/* three populations (the middle one unreferenced) and two individuals, identified by 1-byte metadata tags;
 * node 0 -> population 2, individual 1; node 1 -> population 0, individual 0 or none; the last node -> population 2,
 * individual 0 (an internal node inside an individual); others: no references */
static int node1_has_ind;
static void
h_pre_rows(tsk_table_collection_t *t)
{
    tsk_population_table_add_row(&t->populations, "P", 1);
    tsk_population_table_add_row(&t->populations, "Q", 1);
    tsk_population_table_add_row(&t->populations, "R", 1);
    tsk_individual_table_add_row(&t->individuals, 0, NULL, 0, NULL, 0, "I", 1);
    tsk_individual_table_add_row(&t->individuals, 0, NULL, 0, NULL, 0, "J", 1);
    node1_has_ind = sym_choice("n1ind", 0, 1);
}
static tsk_id_t
h_node_pop(int j)
{
    return j == 0 ? 2 : j == 1 ? 0 : j == NN - 1 ? 2 : -1;
}
static tsk_id_t
h_node_ind(int j)
{
    return j == 0 ? 1 : j == 1 ? (node1_has_ind ? 0 : -1) : j == NN - 1 ? 0 : -1;
}
static const char pop_tag[3] = { 'P', 'Q', 'R' }, ind_tag[2] = { 'I', 'J' };
#endif

static void
h_extra_rows(tsk_table_collection_t *t, h_tables_t *Tp)
{
    int j, ret;
    char nm[16];
    for (j = 0; j < NM; j++) {
        msite[j] = sym_choice(sym_nm(nm, "ms", j), j == 0 ? 0 : msite[j - 1], NS - 1);
        mnode[j] = sym_choice(sym_nm(nm, "mn", j), 0, NN - 1);
        /* a known mutation time (the time of its node): a mutation left on the wrong output node makes the output invalid */
        ret = tsk_mutation_table_add_row(&t->mutations, msite[j], mnode[j], -1, Tp->time[mnode[j]], j % 2 ? "G" : "C", 1, NULL, 0);
        sym_assume(ret == j);
    }
}

static int chosen[NN];
static tsk_id_t samples[MAXS];
static int nsamples;

/* presence of every input node at position x under the documented rule */
static int keep_unary_ind_only; /* keep_unary_in_individuals: unary nodes are kept only inside an individual */

static void
presence(double x, int keep_unary, int keep_input_roots, int *present, tsk_id_t *P)
{
    int u, v, k, has[NN], c[NN];
    tsk_id_t eid;
    for (u = 0; u < NN; u++) {
        P[u] = h_parent_at(&T, u, x, &eid);
        has[u] = 0;
        c[u] = 0;
    }
    for (u = 0; u < NN; u++) {
        if (chosen[u]) {
            v = u;
            for (k = 0; k <= NN && v != TSK_NULL; k++) {
                has[v] = 1;
                v = P[v];
            }
        }
    }
    for (u = 0; u < NN; u++) {
        if (P[u] != TSK_NULL && has[u]) {
            c[P[u]]++;
        }
    }
    for (u = 0; u < NN; u++) {
        present[u] = chosen[u] || c[u] >= 2;
        if (keep_unary && has[u]) {
#ifdef H_NODE_REFS
            if (!keep_unary_ind_only || h_node_ind(u) != TSK_NULL) {
                present[u] = 1;
            }
#else
            present[u] = 1;
#endif
        }
        if (keep_input_roots && has[u] && P[u] == TSK_NULL) {
            present[u] = 1;
        }
    }
}

static tsk_id_t
out_parent_at(const tsk_table_collection_t *o, tsk_id_t u, double x)
{
    tsk_size_t j;
    tsk_id_t p = TSK_NULL;
    for (j = 0; j < o->edges.num_rows; j++) {
        if (o->edges.child[j] == u && o->edges.left[j] <= x && x < o->edges.right[j]) {
            p = o->edges.parent[j];
        }
    }
    return p;
}

static void
check_options(tsk_table_collection_t *orig, tsk_treeseq_t *ts_in, tsk_flags_t opt, int full)
{
    tsk_table_collection_t o, again;
    tsk_treeseq_t ts_out;
    tsk_id_t node_map[NN], P[NN], idmap2[NN];
    int ret, u, j, k, present[NN], anywhere[NN];
    int keep_unary = !!(opt & (TSK_SIMPLIFY_KEEP_UNARY | TSK_SIMPLIFY_KEEP_UNARY_IN_INDIVIDUALS)), keep_roots = !!(opt & TSK_SIMPLIFY_KEEP_INPUT_ROOTS);
    int filter_nodes = !(opt & TSK_SIMPLIFY_NO_FILTER_NODES);
    double xs[2 * MAXE + 1];
    int nx = 0;

    keep_unary_ind_only = !!(opt & TSK_SIMPLIFY_KEEP_UNARY_IN_INDIVIDUALS);
    ret = tsk_table_collection_copy(orig, &o, 0);
    sym_assume(ret == 0);
    ret = tsk_table_collection_simplify(&o, samples, (tsk_size_t) nsamples, opt, node_map);
    sym_assert(ret == 0, "simplify succeeds");
    if (ret != 0) {
        tsk_table_collection_free(&o);
        return;
    }
    ret = tsk_treeseq_init(&ts_out, &o, TSK_TS_INIT_BUILD_INDEXES);
    sym_assert(ret == 0, "the simplified tables are a valid tree sequence");
    /* position classes: 0 and every edge end-point inside the genome */
    xs[nx++] = 0;
    for (j = 0; j < T.ne; j++) {
        xs[nx++] = T.left[j];
        if (T.right[j] < SEQ_L) {
            xs[nx++] = T.right[j];
        }
    }
    for (u = 0; u < NN; u++) {
        anywhere[u] = 0;
    }
    for (k = 0; k < nx; k++) {
        double x = xs[k];
        presence(x, keep_unary, keep_roots, present, P);
        for (u = 0; u < NN; u++) {
            tsk_id_t w, mu = node_map[u];
            anywhere[u] |= present[u];
            if (mu == TSK_NULL) {
                sym_assert(!present[u], "a node that is present somewhere is retained");
                continue;
            }
            if (!present[u]) {
                sym_assert(out_parent_at(&o, mu, x) == TSK_NULL, "a node that is not part of the sample genealogy at x has no parent there");
                continue;
            }
            /* expected parent: nearest strict ancestor that is present at x */
            w = P[u];
            for (j = 0; j <= NN && w != TSK_NULL && !present[w]; j++) {
                w = P[w];
            }
            sym_assert(out_parent_at(&o, mu, x) == (w == TSK_NULL ? TSK_NULL : node_map[w]),
                "ancestry at x is the original ancestry with only the removable nodes removed");
        }
    }
    for (u = 0; u < NN; u++) {
        if (filter_nodes) {
            sym_assert((node_map[u] != TSK_NULL) == (anywhere[u] != 0), "node_map is NULL exactly for nodes that are present nowhere");
        } else {
            sym_assert(node_map[u] == u, "with filter_nodes off the node table and ids are unchanged");
        }
        if (node_map[u] != TSK_NULL) {
            tsk_id_t mu = node_map[u];
            sym_assert(o.nodes.time[mu] == T.time[u], "retained nodes keep their time");
            if (!(opt & TSK_SIMPLIFY_NO_UPDATE_SAMPLE_FLAGS)) {
                sym_assert(((o.nodes.flags[mu] & TSK_NODE_IS_SAMPLE) != 0) == (chosen[u] != 0), "exactly the chosen samples are flagged as samples");
            } else {
                sym_assert(o.nodes.flags[mu] == T.flags[u], "flags untouched when update_sample_flags is off");
            }
        }
    }
    if (filter_nodes) {
        for (k = 0; k < nsamples; k++) {
            sym_assert(node_map[samples[k]] == k, "samples[k] becomes node k");
        }
    }
#ifdef H_NODE_REFS
    {
        /* populations / individuals: with the filter exactly the referenced rows survive, in their original order, and
         * every retained node still points at the row with the same tag; without it the tables and ids are untouched */
        int used_p[3] = { 0, 0, 0 }, used_i[2] = { 0, 0 }, np = 0, ni = 0;
        for (u = 0; u < NN; u++) {
            if (node_map[u] != TSK_NULL) {
                tsk_id_t mu = node_map[u], p = o.nodes.population[mu], q = o.nodes.individual[mu];
                if (h_node_pop(u) != TSK_NULL) {
                    used_p[h_node_pop(u)] = 1;
                    sym_assert(p >= 0 && p < (tsk_id_t) o.populations.num_rows
                                   && o.populations.metadata[o.populations.metadata_offset[p]] == pop_tag[h_node_pop(u)],
                        "a retained node keeps its population");
                } else {
                    sym_assert(p == TSK_NULL, "a node without population stays without");
                }
                if (h_node_ind(u) != TSK_NULL) {
                    used_i[h_node_ind(u)] = 1;
                    sym_assert(q >= 0 && q < (tsk_id_t) o.individuals.num_rows
                                   && o.individuals.metadata[o.individuals.metadata_offset[q]] == ind_tag[h_node_ind(u)],
                        "a retained node keeps its individual");
                } else {
                    sym_assert(q == TSK_NULL, "a node without individual stays without");
                }
            }
        }
        for (j = 0; j < 3; j++) {
            np += used_p[j];
        }
        for (j = 0; j < 2; j++) {
            ni += used_i[j];
        }
        if (opt & TSK_SIMPLIFY_FILTER_POPULATIONS) {
            sym_assert(o.populations.num_rows == (tsk_size_t) np, "exactly the referenced populations survive");
            for (j = 0; j + 1 < (int) o.populations.num_rows; j++) {
                sym_assert(o.populations.metadata[o.populations.metadata_offset[j]] < o.populations.metadata[o.populations.metadata_offset[j + 1]],
                    "surviving populations keep their relative order");
            }
        } else {
            sym_assert(o.populations.num_rows == 3, "without filter_populations the population table is untouched");
        }
        if (opt & TSK_SIMPLIFY_FILTER_INDIVIDUALS) {
            sym_assert(o.individuals.num_rows == (tsk_size_t) ni, "exactly the referenced individuals survive");
            for (j = 0; j + 1 < (int) o.individuals.num_rows; j++) {
                sym_assert(o.individuals.metadata[o.individuals.metadata_offset[j]] < o.individuals.metadata[o.individuals.metadata_offset[j + 1]],
                    "surviving individuals keep their relative order");
            }
        } else {
            sym_assert(o.individuals.num_rows == 2, "without filter_individuals the individual table is untouched");
        }
        if (np < 3 && (opt & TSK_SIMPLIFY_FILTER_POPULATIONS)) {
            sym_reach("population-dropped");
        }
    }
#endif
    /* genotypes of the chosen samples are preserved at every retained site; dropped sites carried no variation */
    if (full && ret == 0 && NS > 0) {
        tsk_variant_t vin, vout;
        tsk_id_t outs[MAXS];
        int si, so = 0;
        for (k = 0; k < nsamples; k++) {
            outs[k] = node_map[samples[k]];
        }
        ret = tsk_variant_init(&vin, ts_in, samples, (tsk_size_t) nsamples, NULL, TSK_ISOLATED_NOT_MISSING);
        sym_assume(ret == 0);
        ret = tsk_variant_init(&vout, &ts_out, outs, (tsk_size_t) nsamples, NULL, TSK_ISOLATED_NOT_MISSING);
        sym_assume(ret == 0);
        for (si = 0; si < NS; si++) {
            int kept = so < (int) o.sites.num_rows && o.sites.position[so] == site_pos[si];
            ret = tsk_variant_decode(&vin, si, 0);
            sym_assume(ret == 0);
            if (kept) {
                ret = tsk_variant_decode(&vout, so, 0);
                sym_assert(ret == 0, "decode output site");
                for (k = 0; k < nsamples; k++) {
                    int32_t a = vin.genotypes[k], b = vout.genotypes[k];
                    sym_assert(vin.allele_lengths[a] == vout.allele_lengths[b] && vin.alleles[a][0] == vout.alleles[b][0],
                        "every chosen sample has the same allele at every retained site");
                }
                so++;
            } else {
                sym_assert(!(opt & TSK_SIMPLIFY_NO_FILTER_NODES) || 1, "");
                for (k = 0; k < nsamples; k++) {
                    sym_assert(vin.genotypes[k] == 0, "a site is dropped only if every chosen sample carries the ancestral state");
                }
            }
        }
        sym_assert(so == (int) o.sites.num_rows, "no sites appear from nowhere");
        tsk_variant_free(&vin);
        tsk_variant_free(&vout);
    }
    /* simplifying the result again changes nothing */
    if (full && filter_nodes) {
        tsk_id_t ident[MAXS];
        for (k = 0; k < nsamples; k++) {
            ident[k] = k;
        }
        ret = tsk_table_collection_copy(&o, &again, 0);
        sym_assume(ret == 0);
        ret = tsk_table_collection_simplify(&again, ident, (tsk_size_t) nsamples, opt, idmap2);
        sym_assert(ret == 0, "second simplify succeeds");
        again.provenances.num_rows = o.provenances.num_rows;
        sym_assert(tsk_table_collection_equals(&o, &again, TSK_CMP_IGNORE_PROVENANCE), "simplifying the result again changes nothing");
        tsk_table_collection_free(&again);
    }
    tsk_treeseq_free(&ts_out);
    tsk_table_collection_free(&o);
}

#ifdef REDUCE_PASS
/* reduce_to_site_topology: at every site the ancestry is the simplified ancestry of the input there; every output edge
 * covers at least one site; with no sites there are no edges */
static void
check_reduce(tsk_table_collection_t *orig)
{
    tsk_table_collection_t o;
    tsk_treeseq_t ts_out;
    tsk_id_t node_map[NN], P[NN];
    int ret, u, j, k, present[NN], anywhere[NN];
    tsk_size_t e;

    ret = tsk_table_collection_copy(orig, &o, 0);
    sym_assume(ret == 0);
    ret = tsk_table_collection_simplify(&o, samples, (tsk_size_t) nsamples, TSK_SIMPLIFY_REDUCE_TO_SITE_TOPOLOGY, node_map);
    sym_assert(ret == 0, "simplify(reduce_to_site_topology) succeeds");
    if (ret != 0) {
        tsk_table_collection_free(&o);
        return;
    }
    ret = tsk_treeseq_init(&ts_out, &o, TSK_TS_INIT_BUILD_INDEXES);
    sym_assert(ret == 0, "the reduced tables are a valid tree sequence");
    sym_assert(o.sites.num_rows == NS, "without filter_sites every site is kept");
    for (u = 0; u < NN; u++) {
        anywhere[u] = 0;
    }
    for (k = 0; k < NS; k++) {
        double x = site_pos[k];
        presence(x, 0, 0, present, P);
        for (u = 0; u < NN; u++) {
            tsk_id_t w, mu = node_map[u];
            anywhere[u] |= present[u];
            if (mu == TSK_NULL) {
                sym_assert(!present[u], "a node that is present at some site is retained");
                continue;
            }
            if (!present[u]) {
                sym_assert(out_parent_at(&o, mu, x) == TSK_NULL, "a node that is not part of the sample genealogy at the site has no parent there");
                continue;
            }
            w = P[u];
            for (j = 0; j <= NN && w != TSK_NULL && !present[w]; j++) {
                w = P[w];
            }
            sym_assert(out_parent_at(&o, mu, x) == (w == TSK_NULL ? TSK_NULL : node_map[w]),
                "at every site the ancestry is the simplified ancestry of the input at that position");
        }
    }
    for (u = 0; u < NN; u++) {
        sym_assert((node_map[u] != TSK_NULL) == (anywhere[u] != 0), "node_map is NULL exactly for nodes present at no site");
    }
    for (e = 0; e < o.edges.num_rows; e++) {
        int covers = 0;
        for (k = 0; k < NS; k++) {
            covers |= o.edges.left[e] <= site_pos[k] && site_pos[k] < o.edges.right[e];
        }
        sym_assert(covers, "every output edge covers at least one site (no sites: no edges)");
    }
    if (o.edges.num_rows > 0) {
        sym_reach("reduced-edges");
    }
    tsk_treeseq_free(&ts_out);
    tsk_table_collection_free(&o);
}
#endif

int
main_c04(void)
{
    tsk_table_collection_t t;
    tsk_treeseq_t ts;
    int j, k;
    char nm[16];

    if (h_build_treeseq(&t, &ts, &T) != 0) {
        return 0;
    }
    nsamples = sym_choice("nsamples", 1, MAXS);
    for (j = 0; j < NN; j++) {
        chosen[j] = 0;
    }
    for (j = 0; j < nsamples; j++) {
        samples[j] = sym_choice(sym_nm(nm, "s", j), 0, NN - 1);
        for (k = 0; k < j; k++) {
            if (samples[k] == samples[j]) {
                sym_assume(0);
            }
        }
        chosen[samples[j]] = 1;
    }
    check_options(&t, &ts, TSK_SIMPLIFY_FILTER_SITES | TSK_SIMPLIFY_FILTER_POPULATIONS | TSK_SIMPLIFY_FILTER_INDIVIDUALS, 1);
#ifdef REDUCE_PASS
    check_reduce(&t);
#endif
#ifdef ROOTS_PASS
    check_options(&t, &ts, TSK_SIMPLIFY_FILTER_SITES | TSK_SIMPLIFY_KEEP_INPUT_ROOTS, 1);
#endif
#ifdef H_NODE_REFS
    check_options(&t, &ts, TSK_SIMPLIFY_FILTER_SITES | TSK_SIMPLIFY_FILTER_POPULATIONS | TSK_SIMPLIFY_FILTER_INDIVIDUALS | TSK_SIMPLIFY_KEEP_UNARY_IN_INDIVIDUALS, 0);
    check_options(&t, &ts, TSK_SIMPLIFY_FILTER_SITES | TSK_SIMPLIFY_FILTER_INDIVIDUALS, 0);
#endif
#ifndef DEFAULT_OPTIONS_ONLY
    check_options(&t, &ts, TSK_SIMPLIFY_FILTER_SITES | TSK_SIMPLIFY_KEEP_UNARY, 0);
    check_options(&t, &ts, TSK_SIMPLIFY_FILTER_SITES | TSK_SIMPLIFY_KEEP_INPUT_ROOTS, 0);
    check_options(&t, &ts, TSK_SIMPLIFY_NO_FILTER_NODES | TSK_SIMPLIFY_NO_UPDATE_SAMPLE_FLAGS, FULL_ALL);
#endif
    tsk_treeseq_free(&ts);
    tsk_table_collection_free(&t);
    SYM_END();
    return 0;
}
