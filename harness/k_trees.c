/* Leaf kernels of c/tskit/trees.c (compiled into this unit so that static functions are callable).
 * UNITY: trees.c
 *
 * KERNEL 7 (C20): the 64-bit allele-set helpers of the Hartigan parsimony pass, for every 64-bit set
 */
#include "common.h"
#include "tskit/trees.c"

#ifndef KERNEL
#define KERNEL 7
#endif

#if KERNEL == 7
int
main_kernel(void)
{
    uint64_t v = (uint64_t) sym_i64("v"), w;
    int32_t b = sym_i32("b"), j;
    int8_t r;

    sym_assume(v != 0);
    sym_assume(b >= 0 && b < 64);
    r = get_smallest_set_bit(v);
    sym_assert(r >= 0 && r < 64, "the smallest allele of a non-empty set is an allele index");
    sym_assert(bit_is_set(v, r), "the reported smallest allele is in the set");
    sym_assert(r == 0 || (v << (64 - r)) == 0, "no smaller allele is in the set");
    w = set_bit(v, b);
    sym_assert(bit_is_set(w, b), "set_bit adds the allele");
    sym_assert((w & ~(UINT64_C(1) << b)) == (v & ~(UINT64_C(1) << b)), "set_bit changes no other allele");
    for (j = 0; j < 64; j += 21) {
        sym_assert(bit_is_set(v, j) == ((v >> j) & 1), "bit_is_set reads the allele's bit");
    }
    if (r >= 32) {
        sym_reach("high");
    }
    SYM_END();
    return 0;
}
#endif
