/* C08 (narrow, exact-integer regime): tsk_treeseq_general_stat in branch, site
 * and node mode with sample-set indicator weights, an identity summary function,
 * span_normalise off, polarised on/off and one or two windows with a symbolic
 * break-point equals the documented definition evaluated naively from the
 * marginal trees, and is additive over the window refinement.  Every
 * intermediate is an integer-valued double (the engine's IntD); a path that
 * leaves that regime ends as inconclusive, not as a pass. */
#define H_EXTRA_ROWS
#define H_COMPUTE_MUTATION_PARENTS
#define SITE_ANC "AT"
#define SITE_ANC_LEN 2
#include "treegen.h"

#ifndef NM
#define NM 1
#endif

static h_tables_t T;
static tsk_id_t msite[NM + 1], mnode[NM + 1];
static int mstate[NM + 1];
static const char *states[3] = { "AT", "A", "C" }; /* "AT" is the ancestral allele; the derived "A" is a prefix of it */
static const int state_len[3] = { 2, 1, 1 };

static void
h_extra_rows(tsk_table_collection_t *t, h_tables_t *Tp)
{
    int j, ret;
    char nm[16];
    (void) Tp;
    for (j = 0; j < NM; j++) {
        msite[j] = sym_choice(sym_nm(nm, "ms", j), j == 0 ? 0 : msite[j - 1], NS - 1);
        mnode[j] = sym_choice(sym_nm(nm, "mn", j), 0, NN - 1);
        mstate[j] = 1 + sym_choice(sym_nm(nm, "md", j), 0, 1);
        ret = tsk_mutation_table_add_row(&t->mutations, msite[j], mnode[j], -1, TSK_UNKNOWN_TIME, states[mstate[j]],
            (tsk_size_t) state_len[mstate[j]], NULL, 0);
        sym_assume(ret == j);
    }
}

static int
identity(tsk_size_t K, const double *x, tsk_size_t M, double *r, void *p)
{
    tsk_size_t k;
    (void) p;
    for (k = 0; k < M && k < K; k++) {
        r[k] = x[k];
    }
    return 0;
}

static double
overlap(double a, double b, double lo, double hi)
{
    double l = a > lo ? a : lo, r = b < hi ? b : hi;
    return r > l ? r - l : 0;
}

/* allele state index of node u at site s by the walk-up rule */
static int
allele_of(int s, tsk_id_t u)
{
    double x = site_pos[s];
    int k, j;
    for (k = 0; k <= NN && u != TSK_NULL; k++) {
        for (j = NM - 1; j >= 0; j--) {
            if (msite[j] == s && mnode[j] == u) {
                return mstate[j];
            }
        }
        u = h_parent_at(&T, u, x, NULL);
    }
    return 0;
}

int
main_c08(void)
{
    tsk_table_collection_t t;
    tsk_treeseq_t ts;
    tsk_tree_t tree;
    double W[MAXN], win1[2], win2[3], res1[MAXN + 1], res2[2 * (MAXN + 1)], expect[2][MAXN + 1], total = 0;
    int ret, u, w, ns = 0, mode, polarised, combo, wpat, in_set[MAXN];
    tsk_flags_t opt;

    if (h_build_treeseq(&t, &ts, &T) != 0) {
        return 0;
    }
    /* weights: indicator of a sample set chosen by enumeration */
    wpat = sym_choice("wpat", 0, 1);
    for (u = 0; u < NN; u++) {
        in_set[u] = 0;
        if (T.flags[u] & TSK_NODE_IS_SAMPLE) {
            /* sample set: all samples, or all but the first */
            in_set[u] = wpat == 0 ? 1 : (ns > 0);
            W[ns++] = in_set[u];
            total += in_set[u];
        }
    }
    if (ns == 0) {
        sym_assume(0);
    }
    win1[0] = 0;
    win1[1] = SEQ_L;
    win2[0] = 0;
    win2[1] = sym_f64_int("b");
    sym_assume(0 < win2[1] && win2[1] < SEQ_L);
    win2[2] = SEQ_L;
    for (combo = 0; combo < (NS > 0 ? 6 : 4); combo++) {
    mode = combo / 2; /* 0 branch, 1 node, 2 site */
    polarised = combo % 2;
    opt = (mode == 0 ? TSK_STAT_BRANCH : mode == 1 ? TSK_STAT_NODE : TSK_STAT_SITE) | (polarised ? TSK_STAT_POLARISED : 0);
    ret = tsk_treeseq_general_stat(&ts, 1, W, 1, identity, NULL, 1, win1, opt, res1);
    sym_assert(ret == 0, "general_stat on one window");
    ret = tsk_treeseq_general_stat(&ts, 1, W, 1, identity, NULL, 2, win2, opt, res2);
    sym_assert(ret == 0, "general_stat on two windows");

    /* naive definition per window */
    for (w = 0; w < 2; w++) {
        for (u = 0; u <= NN; u++) {
            expect[w][u] = 0;
        }
    }
    if (mode != 2) {
        ret = tsk_tree_init(&tree, &ts, 0);
        sym_assume(ret == 0);
        for (ret = tsk_tree_first(&tree); ret == TSK_TREE_OK; ret = tsk_tree_next(&tree)) {
            for (w = 0; w < 2; w++) {
                double span = overlap(tree.interval.left, tree.interval.right, win2[w], win2[w + 1]);
                for (u = 0; u < NN; u++) {
                    double below = 0, f;
                    tsk_id_t v;
                    int k, s;
                    /* weight of the samples in the subtree of u */
                    for (s = 0; s < NN; s++) {
                        if (in_set[s]) {
                            for (v = s, k = 0; k <= NN && v != TSK_NULL; v = tree.parent[v], k++) {
                                if (v == u) {
                                    below += 1;
                                    break;
                                }
                            }
                        }
                    }
                    f = polarised ? below : below + (total - below);
                    if (mode == 0) {
                        /* branch mode: branch length above u times span times f */
                        if (tree.parent[u] != TSK_NULL) {
                            expect[w][0] += span * (T.time[tree.parent[u]] - T.time[u]) * f;
                        }
                    } else {
                        /* node mode (docs/stats.md): for each node, span times f of the weight below (and above) it */
                        expect[w][u] += span * f;
                    }
                }
            }
        }
        tsk_tree_free(&tree);
    } else {
        int s, a;
        for (s = 0; s < NS; s++) {
            w = site_pos[s] < win2[1] ? 0 : 1;
            for (a = polarised ? 1 : 0; a < 3; a++) {
                double cnt = 0;
                int present = a == 0, j;
                for (j = 0; j < NM; j++) {
                    present |= msite[j] == s && mstate[j] == a;
                }
                for (u = 0; u < NN; u++) {
                    if (in_set[u] && allele_of(s, u) == a) {
                        cnt += 1;
                    }
                }
                if (present) {
                    /* site mode: sum over the alleles present at the site of f(weight of samples carrying the allele) */
                    expect[w][0] += cnt;
                }
            }
        }
    }
    if (mode == 1) {
        for (u = 0; u < NN; u++) {
            sym_assert(res2[u] == expect[0][u] && res2[NN + u] == expect[1][u], "node statistic equals its definition in every window");
            sym_assert(res1[u] == res2[u] + res2[NN + u], "windows are additive (node mode)");
        }
    } else {
        sym_assert(res2[0] == expect[0][0] && res2[1] == expect[1][0], mode == 0 ? "branch statistic equals its definition in every window" : "site statistic equals its definition in every window");
        sym_assert(res1[0] == res2[0] + res2[1], "the coarse window equals the sum of its refinement");
    }
    }
    tsk_treeseq_free(&ts);
    tsk_table_collection_free(&t);
    SYM_END();
    return 0;
}
