/* C13: after any sequence of row and column operations a table's contents
 * equal those of a plain list of rows subjected to the same operations;
 * keep_rows remaps self-references and rejects dangling ones, leaving the
 * table unchanged.  The reference model is an array of row structs in this
 * file.  Row values are solver variables; operation codes, indexes and
 * ragged lengths are enumerated.   KIND 1: node table, 2: individual table,
 * 3: mutation table, 4: edge, 5: site, 6: migration, 7: population, 8: provenance table. */
#include "common.h"

#ifndef KIND
#define KIND 1
#endif
#ifndef KOPS
#define KOPS 2
#endif
#define MAXR 5
#define MAXL 2

typedef struct {
    int32_t a, b, c;        /* fixed-width fields (flags/pop/ind; flags; site/node/parent) */
    double t, t2, t3;       /* time / left / right / position */
    int len1, len2, len3;   /* ragged lengths */
    char r1[MAXL];          /* metadata */
    int32_t r2[MAXL];       /* parents (individuals) */
    double r3[MAXL];        /* location (individuals) */
    char r4[MAXL];          /* derived state (mutations) */
} row_t;

static row_t model[MAXR + 4];
static int nrows;
static int symcount;

static const char *
nm(const char *p)
{
    static char buf[24];
    return sym_nm(buf, p, symcount);
}

static void
fresh_row_into(row_t *out)
{
    row_t r;
    int j;
    memset(&r, 0, sizeof(r));
    symcount++;
    r.a = sym_i32(nm("a"));
    r.b = sym_i32(nm("b"));
    r.c = sym_i32(nm("c"));
    r.t = sym_f64_int(nm("t"));
#if KIND == 4 || KIND == 6
    r.t2 = sym_f64_int(nm("u"));
    r.t3 = sym_f64_int(nm("v"));
#endif
    r.len1 = sym_choice(nm("n"), 0, MAXL);
    for (j = 0; j < r.len1; j++) {
        r.r1[j] = (char) sym_i8(j ? nm("m") : nm("k"));
    }
#if KIND == 2
    r.len2 = sym_choice(nm("np"), 0, 1);
    r.r2[0] = -1; /* self-references are set by the dedicated operation */
    r.len3 = sym_choice(nm("nl"), 0, 1);
    r.r3[0] = sym_f64_int(nm("x"));
#endif
#if KIND == 3 || KIND == 5 || KIND == 8
    r.len2 = sym_choice(nm("nd"), 0, MAXL); /* derived state / ancestral state / record */
    for (j = 0; j < r.len2; j++) {
        r.r4[j] = (char) sym_i8(j ? nm("e") : nm("d"));
    }
#endif
#if KIND == 3
    r.c = -1; /* parent: set by the dedicated operation */
#endif
    *out = r;
}

#if KIND == 1
typedef tsk_node_table_t table_t;
#define T_INIT tsk_node_table_init
#define T_FREE tsk_node_table_free
#define T_TRUNCATE tsk_node_table_truncate
#define T_KEEP tsk_node_table_keep_rows
#define T_EXTEND tsk_node_table_extend
#define T_CLEAR tsk_node_table_clear
#define T_COPY tsk_node_table_copy
#define T_EQUALS tsk_node_table_equals
#define T_INCR tsk_node_table_set_max_rows_increment
static tsk_id_t
t_add(table_t *t, const row_t *r)
{
    return tsk_node_table_add_row(t, (tsk_flags_t) r->a, r->t, r->b, r->c, r->r1, (tsk_size_t) r->len1);
}
static int
t_update(table_t *t, tsk_id_t j, const row_t *r)
{
    return tsk_node_table_update_row(t, j, (tsk_flags_t) r->a, r->t, r->b, r->c, r->r1, (tsk_size_t) r->len1);
}
static void
check_row(const table_t *t, int j, const row_t *r)
{
    tsk_node_t row;
    int k, ret = tsk_node_table_get_row(t, j, &row);
    sym_assert(ret == 0 && row.id == j, "get_row succeeds for an existing row");
    sym_assert(row.flags == (tsk_flags_t) r->a && row.time == r->t && row.population == r->b && row.individual == r->c,
        "fixed-width fields equal the model row");
    sym_assert(row.metadata_length == (tsk_size_t) r->len1, "metadata length equals the model row");
    for (k = 0; k < r->len1; k++) {
        sym_assert(row.metadata[k] == r->r1[k], "metadata bytes equal the model row");
    }
}
static void
check_ragged(const table_t *t)
{
    tsk_size_t j, tot = 0;
    sym_assert(t->metadata_offset[0] == 0, "offsets start at 0");
    for (j = 0; j < t->num_rows; j++) {
        sym_assert(t->metadata_offset[j] <= t->metadata_offset[j + 1], "offsets are monotone");
        tot += (tsk_size_t) model[j].len1;
    }
    sym_assert(t->metadata_offset[t->num_rows] == t->metadata_length && t->metadata_length == tot, "total ragged length");
}
#endif

#if KIND == 2
typedef tsk_individual_table_t table_t;
#define T_INIT tsk_individual_table_init
#define T_FREE tsk_individual_table_free
#define T_TRUNCATE tsk_individual_table_truncate
#define T_KEEP tsk_individual_table_keep_rows
#define T_EXTEND tsk_individual_table_extend
#define T_CLEAR tsk_individual_table_clear
#define T_COPY tsk_individual_table_copy
#define T_EQUALS tsk_individual_table_equals
#define T_INCR tsk_individual_table_set_max_rows_increment
static tsk_id_t
t_add(table_t *t, const row_t *r)
{
    return tsk_individual_table_add_row(t, (tsk_flags_t) r->a, r->r3, (tsk_size_t) r->len3, r->r2, (tsk_size_t) r->len2, r->r1,
        (tsk_size_t) r->len1);
}
static int
t_update(table_t *t, tsk_id_t j, const row_t *r)
{
    return tsk_individual_table_update_row(t, j, (tsk_flags_t) r->a, r->r3, (tsk_size_t) r->len3, r->r2, (tsk_size_t) r->len2,
        r->r1, (tsk_size_t) r->len1);
}
static void
check_row(const table_t *t, int j, const row_t *r)
{
    tsk_individual_t row;
    int k, ret = tsk_individual_table_get_row(t, j, &row);
    sym_assert(ret == 0 && row.id == j, "get_row succeeds for an existing row");
    sym_assert(row.flags == (tsk_flags_t) r->a, "fixed-width fields equal the model row");
    sym_assert(row.metadata_length == (tsk_size_t) r->len1 && row.parents_length == (tsk_size_t) r->len2
                   && row.location_length == (tsk_size_t) r->len3,
        "ragged lengths equal the model row");
    for (k = 0; k < r->len1; k++) {
        sym_assert(row.metadata[k] == r->r1[k], "metadata bytes equal the model row");
    }
    for (k = 0; k < r->len2; k++) {
        sym_assert(row.parents[k] == r->r2[k], "parents equal the model row");
    }
    for (k = 0; k < r->len3; k++) {
        sym_assert(row.location[k] == r->r3[k], "location equals the model row");
    }
}
static void
check_ragged(const table_t *t)
{
    tsk_size_t j, a = 0, b = 0, c = 0;
    for (j = 0; j < t->num_rows; j++) {
        sym_assert(t->metadata_offset[j] <= t->metadata_offset[j + 1] && t->parents_offset[j] <= t->parents_offset[j + 1]
                       && t->location_offset[j] <= t->location_offset[j + 1],
            "offsets are monotone");
        a += (tsk_size_t) model[j].len1;
        b += (tsk_size_t) model[j].len2;
        c += (tsk_size_t) model[j].len3;
    }
    sym_assert(t->metadata_offset[t->num_rows] == a && t->metadata_length == a && t->parents_length == b && t->location_length == c
                   && t->parents_offset[t->num_rows] == b && t->location_offset[t->num_rows] == c,
        "total ragged length");
}
#endif

#if KIND == 3
typedef tsk_mutation_table_t table_t;
#define T_INIT tsk_mutation_table_init
#define T_FREE tsk_mutation_table_free
#define T_TRUNCATE tsk_mutation_table_truncate
#define T_KEEP tsk_mutation_table_keep_rows
#define T_EXTEND tsk_mutation_table_extend
#define T_CLEAR tsk_mutation_table_clear
#define T_COPY tsk_mutation_table_copy
#define T_EQUALS tsk_mutation_table_equals
#define T_INCR tsk_mutation_table_set_max_rows_increment
static tsk_id_t
t_add(table_t *t, const row_t *r)
{
    return tsk_mutation_table_add_row(t, r->a, r->b, r->c, r->t, r->r4, (tsk_size_t) r->len2, r->r1, (tsk_size_t) r->len1);
}
static int
t_update(table_t *t, tsk_id_t j, const row_t *r)
{
    return tsk_mutation_table_update_row(t, j, r->a, r->b, r->c, r->t, r->r4, (tsk_size_t) r->len2, r->r1, (tsk_size_t) r->len1);
}
static void
check_row(const table_t *t, int j, const row_t *r)
{
    tsk_mutation_t row;
    int k, ret = tsk_mutation_table_get_row(t, j, &row);
    sym_assert(ret == 0 && row.id == j, "get_row succeeds for an existing row");
    sym_assert(row.site == r->a && row.node == r->b && row.parent == r->c && row.time == r->t, "fixed-width fields equal the model row");
    sym_assert(row.metadata_length == (tsk_size_t) r->len1 && row.derived_state_length == (tsk_size_t) r->len2, "ragged lengths equal the model row");
    for (k = 0; k < r->len1; k++) {
        sym_assert(row.metadata[k] == r->r1[k], "metadata bytes equal the model row");
    }
    for (k = 0; k < r->len2; k++) {
        sym_assert(row.derived_state[k] == r->r4[k], "derived state bytes equal the model row");
    }
}
static void
check_ragged(const table_t *t)
{
    tsk_size_t j, a = 0, b = 0;
    for (j = 0; j < t->num_rows; j++) {
        sym_assert(t->metadata_offset[j] <= t->metadata_offset[j + 1] && t->derived_state_offset[j] <= t->derived_state_offset[j + 1], "offsets are monotone");
        a += (tsk_size_t) model[j].len1;
        b += (tsk_size_t) model[j].len2;
    }
    sym_assert(t->metadata_length == a && t->derived_state_length == b && t->metadata_offset[t->num_rows] == a
                   && t->derived_state_offset[t->num_rows] == b,
        "total ragged length");
}
#endif

/* kinds 4-8: one metadata-like ragged column r1 and (site, provenance) a second byte column r4 */
#if KIND >= 4
#if KIND == 4
typedef tsk_edge_table_t table_t;
typedef tsk_edge_t trow_t;
#define PFX(x) tsk_edge_table_##x
#define ADD(t, r) tsk_edge_table_add_row(t, (r)->t2, (r)->t3, (r)->a, (r)->b, (r)->r1, (tsk_size_t)(r)->len1)
#define UPD(t, j, r) tsk_edge_table_update_row(t, j, (r)->t2, (r)->t3, (r)->a, (r)->b, (r)->r1, (tsk_size_t)(r)->len1)
#define FIXED_EQ(row, r) ((row).left == (r)->t2 && (row).right == (r)->t3 && (row).parent == (r)->a && (row).child == (r)->b)
#define R1_LEN(row) (row).metadata_length
#define R1_PTR(row) (row).metadata
#define R1_OFF(t) (t)->metadata_offset
#define R1_TOT(t) (t)->metadata_length
#elif KIND == 5
typedef tsk_site_table_t table_t;
typedef tsk_site_t trow_t;
#define PFX(x) tsk_site_table_##x
#define ADD(t, r) tsk_site_table_add_row(t, (r)->t, (r)->r4, (tsk_size_t)(r)->len2, (r)->r1, (tsk_size_t)(r)->len1)
#define UPD(t, j, r) tsk_site_table_update_row(t, j, (r)->t, (r)->r4, (tsk_size_t)(r)->len2, (r)->r1, (tsk_size_t)(r)->len1)
#define FIXED_EQ(row, r) ((row).position == (r)->t)
#define R1_LEN(row) (row).metadata_length
#define R1_PTR(row) (row).metadata
#define R1_OFF(t) (t)->metadata_offset
#define R1_TOT(t) (t)->metadata_length
#define R4_LEN(row) (row).ancestral_state_length
#define R4_PTR(row) (row).ancestral_state
#define R4_OFF(t) (t)->ancestral_state_offset
#define R4_TOT(t) (t)->ancestral_state_length
#elif KIND == 6
typedef tsk_migration_table_t table_t;
typedef tsk_migration_t trow_t;
#define PFX(x) tsk_migration_table_##x
#define ADD(t, r) tsk_migration_table_add_row(t, (r)->t2, (r)->t3, (r)->a, (r)->b, (r)->c, (r)->t, (r)->r1, (tsk_size_t)(r)->len1)
#define UPD(t, j, r) tsk_migration_table_update_row(t, j, (r)->t2, (r)->t3, (r)->a, (r)->b, (r)->c, (r)->t, (r)->r1, (tsk_size_t)(r)->len1)
#define FIXED_EQ(row, r) ((row).left == (r)->t2 && (row).right == (r)->t3 && (row).node == (r)->a && (row).source == (r)->b && (row).dest == (r)->c && (row).time == (r)->t)
#define R1_LEN(row) (row).metadata_length
#define R1_PTR(row) (row).metadata
#define R1_OFF(t) (t)->metadata_offset
#define R1_TOT(t) (t)->metadata_length
#elif KIND == 7
typedef tsk_population_table_t table_t;
typedef tsk_population_t trow_t;
#define PFX(x) tsk_population_table_##x
#define ADD(t, r) tsk_population_table_add_row(t, (r)->r1, (tsk_size_t)(r)->len1)
#define UPD(t, j, r) tsk_population_table_update_row(t, j, (r)->r1, (tsk_size_t)(r)->len1)
#define FIXED_EQ(row, r) (1)
#define R1_LEN(row) (row).metadata_length
#define R1_PTR(row) (row).metadata
#define R1_OFF(t) (t)->metadata_offset
#define R1_TOT(t) (t)->metadata_length
#else
typedef tsk_provenance_table_t table_t;
typedef tsk_provenance_t trow_t;
#define PFX(x) tsk_provenance_table_##x
#define ADD(t, r) tsk_provenance_table_add_row(t, (r)->r1, (tsk_size_t)(r)->len1, (r)->r4, (tsk_size_t)(r)->len2)
#define UPD(t, j, r) tsk_provenance_table_update_row(t, j, (r)->r1, (tsk_size_t)(r)->len1, (r)->r4, (tsk_size_t)(r)->len2)
#define FIXED_EQ(row, r) (1)
#define R1_LEN(row) (row).timestamp_length
#define R1_PTR(row) (row).timestamp
#define R1_OFF(t) (t)->timestamp_offset
#define R1_TOT(t) (t)->timestamp_length
#define R4_LEN(row) (row).record_length
#define R4_PTR(row) (row).record
#define R4_OFF(t) (t)->record_offset
#define R4_TOT(t) (t)->record_length
#endif
#define T_INIT PFX(init)
#define T_FREE PFX(free)
#define T_TRUNCATE PFX(truncate)
#define T_KEEP PFX(keep_rows)
#define T_EXTEND PFX(extend)
#define T_CLEAR PFX(clear)
#define T_COPY PFX(copy)
#define T_EQUALS PFX(equals)
#define T_INCR PFX(set_max_rows_increment)
static tsk_id_t
t_add(table_t *t, const row_t *r)
{
    return ADD(t, r);
}
static int
t_update(table_t *t, tsk_id_t j, const row_t *r)
{
    return UPD(t, j, r);
}
static void
check_row(const table_t *t, int j, const row_t *r)
{
    trow_t row;
    int k, ret = PFX(get_row)(t, j, &row);
    sym_assert(ret == 0 && row.id == j, "get_row succeeds for an existing row");
    sym_assert(FIXED_EQ(row, r), "fixed-width fields equal the model row");
    sym_assert(R1_LEN(row) == (tsk_size_t) r->len1, "ragged lengths equal the model row");
    for (k = 0; k < r->len1; k++) {
        sym_assert(R1_PTR(row)[k] == r->r1[k], "metadata bytes equal the model row");
    }
#ifdef R4_LEN
    sym_assert(R4_LEN(row) == (tsk_size_t) r->len2, "second ragged length equals the model row");
    for (k = 0; k < r->len2; k++) {
        sym_assert(R4_PTR(row)[k] == r->r4[k], "second ragged column bytes equal the model row");
    }
#endif
}
static void
check_ragged(const table_t *t)
{
    tsk_size_t j, a = 0, b = 0;
    sym_assert(R1_OFF(t)[0] == 0, "offsets start at 0");
    for (j = 0; j < t->num_rows; j++) {
        sym_assert(R1_OFF(t)[j] <= R1_OFF(t)[j + 1], "offsets are monotone");
        a += (tsk_size_t) model[j].len1;
        b += (tsk_size_t) model[j].len2;
    }
    sym_assert(R1_OFF(t)[t->num_rows] == a && R1_TOT(t) == a, "total ragged length");
#ifdef R4_LEN
    for (j = 0; j < t->num_rows; j++) {
        sym_assert(R4_OFF(t)[j] <= R4_OFF(t)[j + 1], "offsets are monotone");
    }
    sym_assert(R4_OFF(t)[t->num_rows] == b && R4_TOT(t) == b, "total ragged length (second column)");
#endif
    (void) b;
}
#endif

static void
check_all(const table_t *t)
{
    int j;
    sym_assert(t->num_rows == (tsk_size_t) nrows, "num_rows equals the length of the model list");
    for (j = 0; j < nrows; j++) {
        check_row(t, j, &model[j]);
    }
    check_ragged(t);
}

/* the self-reference column of row j (kinds 2 and 3), or NULL */
static int32_t *
selfref(row_t *r)
{
#if KIND == 2
    return r->len2 > 0 ? &r->r2[0] : NULL;
#elif KIND == 3
    return &r->c;
#else
    (void) r;
    return NULL;
#endif
}

int
main_c13(void)
{
    table_t t, other, cp;
    int ret, k, j, op, n;
    char name[16];
    row_t r;

    ret = T_INIT(&t, 0);
    sym_assume(ret == 0);
    if (sym_choice("incr1", 0, 1)) {
        T_INCR(&t, 1); /* reallocate on every insertion */
    }
    nrows = 0;
    /* start from a two-row table */
    for (j = 0; j < 2; j++) {
        fresh_row_into(&r);
        ret = (int) t_add(&t, &r);
        sym_assert(ret == nrows, "add_row returns the new row id");
        model[nrows++] = r;
    }
    check_all(&t);
    for (k = 0; k < KOPS; k++) {
        op = sym_choice(sym_nm(name, "op", k), 0, KIND == 1 ? 8 : KIND >= 4 ? 6 : 7);
#ifdef FIRST_OP
        if (k == 0 && op != FIRST_OP) {
            sym_assume(0);
        }
#endif
        switch (op) {
            case 0: /* add_row */
                fresh_row_into(&r);
                ret = (int) t_add(&t, &r);
                sym_assert(ret == nrows, "add_row returns the new row id");
                model[nrows++] = r;
                break;
            case 1: /* update_row */
                j = sym_choice(sym_nm(name, "j", k), 0, MAXR);
                fresh_row_into(&r);
                ret = t_update(&t, j, &r);
                if (j < nrows) {
                    sym_assert(ret == 0, "update_row of an existing row succeeds");
                    model[j] = r;
                } else {
                    sym_assert(ret < 0, "update_row beyond the end is an error");
                }
                break;
            case 2: /* truncate */
                n = sym_choice(sym_nm(name, "tr", k), 0, MAXR);
                ret = T_TRUNCATE(&t, (tsk_size_t) n);
                if (n <= nrows) {
                    sym_assert(ret == 0, "truncate to a shorter length succeeds");
                    nrows = n;
                } else {
                    sym_assert(ret < 0, "truncate cannot lengthen the table");
                }
                break;
            case 3: { /* keep_rows */
                tsk_bool_t keep[MAXR + 4];
                tsk_id_t idmap[MAXR + 4], expect[MAXR + 4];
                int m = 0, dangling = 0;
                for (j = 0; j < nrows; j++) {
                    keep[j] = (tsk_bool_t) sym_choice(sym_nm(name, "kp", j), 0, 1);
                    expect[j] = keep[j] ? m++ : -1;
                }
                for (j = 0; j < nrows; j++) {
                    int32_t *p = selfref(&model[j]);
                    if (keep[j] && p != NULL && *p != -1 && (*p < 0 || *p >= nrows || !keep[*p])) {
                        dangling = 1;
                    }
                }
                ret = T_KEEP(&t, keep, 0, idmap);
                if (dangling) {
                    sym_reach("dangling");
                    sym_assert(ret < 0, "keep_rows rejects a reference to a deleted row");
                    /* and leaves the table as it was: checked by check_all below against the unchanged model */
                } else {
                    sym_assert(ret == 0, "keep_rows succeeds");
                    m = 0;
                    for (j = 0; j < nrows; j++) {
                        sym_assert(idmap[j] == expect[j], "id_map gives the new id of every kept row and -1 for the others");
                        if (keep[j]) {
                            int32_t *p;
                            model[m] = model[j];
                            p = selfref(&model[m]);
                            if (p != NULL && *p != -1) {
                                *p = expect[*p];
                            }
                            m++;
                        }
                    }
                    nrows = m;
                }
                break;
            }
            case 4: { /* extend from a copy of itself */
                tsk_id_t idx[2];
                int cnt = sym_choice(sym_nm(name, "xc", k), 0, 2), all = sym_choice(sym_nm(name, "xa", k), 0, 1), bad = 0;
                ret = T_COPY(&t, &other, 0);
                sym_assume(ret == 0);
                for (j = 0; j < cnt; j++) {
                    idx[j] = sym_choice(sym_nm(name, j ? "xj" : "xi", k), 0, MAXR - 1);
                    bad |= idx[j] >= nrows;
                }
                if (all) {
                    cnt = nrows > 2 ? 2 : nrows; /* first rows, row_indexes == NULL */
                    bad = 0;
                }
                ret = T_EXTEND(&t, &other, (tsk_size_t) cnt, all ? NULL : idx, 0);
                if (bad) {
                    /* like list.extend() from a failing generator: the rows before the bad index have been appended */
                    sym_assert(ret < 0, "extend with an out-of-range row index is an error");
                    for (j = 0; j < cnt && idx[j] < nrows; j++) {
                    }
                    cnt = j;
                    for (j = 0; j < cnt; j++) {
                        model[nrows + j] = model[idx[j]];
                    }
                    nrows += cnt;
                } else {
                    int base = nrows;
                    sym_assert(ret == 0, "extend succeeds");
                    for (j = 0; j < cnt; j++) {
                        model[nrows++] = model[all ? j : idx[j]];
                    }
                    (void) base;
                }
                T_FREE(&other);
                break;
            }
            case 5: /* clear */
                ret = T_CLEAR(&t);
                sym_assert(ret == 0, "clear succeeds");
                nrows = 0;
                break;
            case 6: /* copy, continue on the copy */
                ret = T_COPY(&t, &cp, 0);
                sym_assert(ret == 0 && T_EQUALS(&t, &cp, 0), "copy equals the original");
                T_FREE(&t);
                t = cp;
                break;
#if KIND == 1
            case 8: { /* append_columns: two rows at once, metadata given or omitted */
                row_t r2;
                tsk_flags_t fl[2];
                double tm[2];
                tsk_id_t pp[2], ii[2];
                char md[2 * MAXL];
                tsk_size_t off[3];
                int with_md = sym_choice(sym_nm(name, "wm", k), 0, 1), q;
                fresh_row_into(&r);
                fresh_row_into(&r2);
                if (!with_md) {
                    r.len1 = 0;
                    r2.len1 = 0;
                }
                fl[0] = (tsk_flags_t) r.a; fl[1] = (tsk_flags_t) r2.a;
                tm[0] = r.t; tm[1] = r2.t;
                pp[0] = r.b; pp[1] = r2.b;
                ii[0] = r.c; ii[1] = r2.c;
                off[0] = 0;
                off[1] = (tsk_size_t) r.len1;
                off[2] = (tsk_size_t) (r.len1 + r2.len1);
                for (q = 0; q < r.len1; q++) {
                    md[q] = r.r1[q];
                }
                for (q = 0; q < r2.len1; q++) {
                    md[r.len1 + q] = r2.r1[q];
                }
                ret = tsk_node_table_append_columns(&t, 2, fl, tm, pp, ii, with_md ? md : NULL, with_md ? off : NULL);
                sym_assert(ret == 0, "append_columns succeeds");
                model[nrows++] = r;
                model[nrows++] = r2;
                break;
            }
#endif
            case 7: { /* point a self-reference at another row (kinds 2, 3): via update_row */
                int32_t *p;
                int tgt;
                j = sym_choice(sym_nm(name, "sj", k), 0, MAXR - 1);
                tgt = sym_choice(sym_nm(name, "st", k), 0, MAXR - 1);
                if (j >= nrows || tgt >= nrows) {
                    sym_assume(0);
                }
                r = model[j];
#if KIND == 2
                r.len2 = 1;
#endif
                p = selfref(&r);
                if (p == NULL) {
                    sym_assume(0);
                }
                *p = tgt;
                ret = t_update(&t, j, &r);
                sym_assert(ret == 0, "update_row succeeds");
                model[j] = r;
                break;
            }
        }
        if (nrows > MAXR + 2) {
            sym_assume(0);
        }
        check_all(&t);
    }
    T_FREE(&t);
    SYM_END();
    return 0;
}
