/* C11 (C mechanisms): delete_older, split_edges, their composition (decapitate)
 * and extend_haplotypes change exactly what their documentation says and
 * preserve everything else (row data, metadata tags, mutation parents).
 * MODE 1: delete_older on arbitrary (unsorted, not necessarily valid) tables,
 *         every time a solver variable.
 * MODE 2: split_edges + delete_older on valid tree sequences (treegen), cutoff
 *         enumerated below / at / between / above the node times.
 * MODE 3: extend_haplotypes: only edges and mutation nodes change; sample
 *         genotypes and the simplified tables are identical. */
#if MODE == 2 || MODE == 3
#define H_EXTRA_ROWS
#define H_COMPUTE_MUTATION_PARENTS
#endif
#include "treegen.h"

#ifndef MODE
#define MODE 1
#endif
#ifndef NM
#define NM 2
#endif

#if MODE == 1
#define NROW 3
int
main_c11(void)
{
    tsk_table_collection_t t;
    double ntime[4], mtime[NROW], gtime[2], cut;
    tsk_id_t ep[NROW], ec[NROW], mnode[NROW], mpar[NROW], newid[NROW];
    int munk[NROW], j, k, ret, cnt;
    char nm[16], tag;

    ret = tsk_table_collection_init(&t, 0);
    sym_assume(ret == 0);
    t.sequence_length = 10;
    tsk_population_table_add_row(&t.populations, NULL, 0);
    for (j = 0; j < 4; j++) {
        ntime[j] = sym_f64_int(sym_nm(nm, "t", j));
        tag = (char) ('a' + j);
        tsk_node_table_add_row(&t.nodes, (tsk_flags_t) j, ntime[j], -1, -1, &tag, 1);
    }
    for (j = 0; j < 2; j++) {
        /* which nodes the edges join does not matter to delete_older, only the parent's time does */
        ep[j] = 2 + j;
        ec[j] = j;
        tag = (char) ('e' + j);
        tsk_edge_table_add_row(&t.edges, j, j + 1, ep[j], ec[j], &tag, 1);
    }
    tsk_site_table_add_row(&t.sites, 1, "A", 1, NULL, 0);
    for (j = 0; j < NROW; j++) {
        mnode[j] = j;
        munk[j] = sym_choice(sym_nm(nm, "mu", j), 0, 1);
        mtime[j] = munk[j] ? TSK_UNKNOWN_TIME : sym_f64_int(sym_nm(nm, "mt", j));
        /* parent links: none, an earlier row, or (row 1) a later row */
        mpar[j] = j == 0 ? -1 : j == 1 ? 2 * sym_choice("mp1", 0, 1) - (sym_choice("mp1n", 0, 1) ? 3 : 0) : sym_choice("mp2", -1, 1);
        if (mpar[j] < -1) {
            mpar[j] = -1;
        }
        tag = (char) ('m' + j);
        tsk_mutation_table_add_row(&t.mutations, 0, mnode[j], mpar[j], mtime[j], "T", 1, &tag, 1);
    }
    for (j = 0; j < 2; j++) {
        gtime[j] = sym_f64_int(sym_nm(nm, "gt", j));
        tag = (char) ('g' + j);
        tsk_migration_table_add_row(&t.migrations, 0, 1, 0, 0, 0, gtime[j], &tag, 1);
    }
    cut = sym_f64_int("cut");
    ret = tsk_table_collection_delete_older(&t, cut, 0);
    sym_assert(ret == 0, "delete_older succeeds");
    /* nodes: not affected */
    sym_assert(t.nodes.num_rows == 4, "the node table is not affected");
    for (j = 0; j < 4; j++) {
        sym_assert(t.nodes.time[j] == ntime[j] && t.nodes.flags[j] == (tsk_flags_t) j && t.nodes.metadata[j] == 'a' + j, "node rows unchanged");
    }
    /* edges: any edge with parent node time > time is removed, the others stay in order with their data */
    cnt = 0;
    for (j = 0; j < 2; j++) {
        if (!(ntime[ep[j]] > cut)) {
            sym_assert((tsk_size_t) cnt < t.edges.num_rows && t.edges.parent[cnt] == ep[j] && t.edges.child[cnt] == ec[j]
                           && t.edges.left[cnt] == j && t.edges.metadata[t.edges.metadata_offset[cnt]] == 'e' + j,
                "an edge whose parent is not older than the cutoff is kept with its data");
            cnt++;
        }
    }
    sym_assert(t.edges.num_rows == (tsk_size_t) cnt, "edges with parent time > time are removed");
    /* mutations: time (node time if unknown) >= cutoff removed; parents maintained */
    cnt = 0;
    for (j = 0; j < NROW; j++) {
        double mt = munk[j] ? ntime[mnode[j]] : mtime[j];
        newid[j] = mt >= cut ? -1 : cnt++;
    }
    sym_assert(t.mutations.num_rows == (tsk_size_t) cnt, "mutations with time >= time are removed");
    for (j = 0; j < NROW; j++) {
        if (newid[j] != -1) {
            k = newid[j];
            sym_assert(t.mutations.node[k] == mnode[j] && t.mutations.metadata[t.mutations.metadata_offset[k]] == 'm' + j
                           && (munk[j] ? tsk_is_unknown_time(t.mutations.time[k]) : t.mutations.time[k] == mtime[j]),
                "a retained mutation keeps its data");
            sym_assert(t.mutations.parent[k] == (mpar[j] == -1 ? -1 : newid[mpar[j]]), "mutation parents are maintained (remapped, or null when removed)");
        }
    }
    cnt = 0;
    for (j = 0; j < 2; j++) {
        if (!(gtime[j] >= cut)) {
            sym_assert((tsk_size_t) cnt < t.migrations.num_rows && t.migrations.time[cnt] == gtime[j]
                           && t.migrations.metadata[t.migrations.metadata_offset[cnt]] == 'g' + j,
                "a younger migration is kept with its data");
            cnt++;
        }
    }
    sym_assert(t.migrations.num_rows == (tsk_size_t) cnt, "migrations with time >= time are removed");
    sym_assert(t.sites.num_rows == 1 && t.populations.num_rows == 1, "other tables untouched");
    tsk_table_collection_free(&t);
    SYM_END();
    return 0;
}
#endif

#if MODE == 2 || MODE == 3
static h_tables_t T;
static tsk_id_t msite[NM + 1], mnode[NM + 1];
static int mknown[NM + 1];
static double mtime[NM + 1];

static void
h_extra_rows(tsk_table_collection_t *t, h_tables_t *Tp)
{
    int j, ret;
    char nm[16], tag;
    for (j = 0; j < NM; j++) {
        msite[j] = sym_choice(sym_nm(nm, "ms", j), j == 0 ? 0 : msite[j - 1], NS - 1);
        mnode[j] = sym_choice(sym_nm(nm, "mn", j), 0, NN - 1);
        mknown[j] = MODE == 2 ? sym_choice(sym_nm(nm, "mk", j), 0, 2) : 1; /* extend_haplotypes needs known times */
        /* unknown, or known: at the node's time, or one unit above it (may reach or pass the cutoff) */
        mtime[j] = mknown[j] == 0 ? TSK_UNKNOWN_TIME : Tp->time[mnode[j]] + (mknown[j] - 1) * 0.5;
        tag = (char) ('m' + j);
        ret = tsk_mutation_table_add_row(&t->mutations, msite[j], mnode[j], -1, mtime[j], j % 2 ? "G" : "C", 1, &tag, 1);
        sym_assume(ret == j);
    }
}
#endif

#if MODE == 2
int
main_c11(void)
{
    tsk_table_collection_t t, d;
    tsk_treeseq_t ts, out;
    static const double cuts[6] = { -1, 0, 0.5, 1, 1.5, 9 };
    double cut;
    int ret, j, k, nsplit = 0, found;
    tsk_id_t newnode[MAXE];

    if (h_build_treeseq(&t, &ts, &T) != 0) {
        return 0;
    }
    cut = cuts[sym_choice("cut", 0, 5)];
    ret = tsk_treeseq_split_edges(&ts, cut, 5, TSK_NULL, "Z", 1, 0, &out);
    sym_assert(ret == 0, "split_edges succeeds");
    /* new nodes: one per intersecting edge, appended after the unchanged original nodes */
    for (j = 0; j < T.ne; j++) {
        newnode[j] = TSK_NULL;
        if (T.time[T.child[j]] < cut && cut < T.time[T.parent[j]]) {
            newnode[j] = NN + nsplit++;
        }
    }
    sym_assert(out.tables->nodes.num_rows == (tsk_size_t) (NN + nsplit), "one new node per intersecting edge");
    for (j = 0; j < NN; j++) {
        sym_assert(out.tables->nodes.time[j] == T.time[j] && out.tables->nodes.flags[j] == T.flags[j], "original nodes unchanged");
    }
    for (j = NN; j < NN + nsplit; j++) {
        sym_assert(out.tables->nodes.time[j] == cut && out.tables->nodes.flags[j] == 5 && out.tables->nodes.population[j] == TSK_NULL
                       && out.tables->nodes.metadata[out.tables->nodes.metadata_offset[j]] == 'Z',
            "new nodes carry the cutoff time and the given flags, population and metadata");
    }
    sym_assert(out.tables->edges.num_rows == (tsk_size_t) (T.ne + nsplit), "each intersecting edge is replaced by two");
    for (j = 0; j < T.ne; j++) {
        /* which new node was used for edge j: identify by the (u -> child) edge with the same interval */
        tsk_id_t u = TSK_NULL;
        if (newnode[j] == TSK_NULL) {
            found = 0;
            for (k = 0; k < (int) out.tables->edges.num_rows; k++) {
                found |= out.tables->edges.parent[k] == T.parent[j] && out.tables->edges.child[k] == T.child[j]
                         && out.tables->edges.left[k] == T.left[j] && out.tables->edges.right[k] == T.right[j];
            }
            sym_assert(found, "an edge that does not intersect the cutoff is unchanged");
            continue;
        }
        for (k = 0; k < (int) out.tables->edges.num_rows; k++) {
            if (out.tables->edges.child[k] == T.child[j] && out.tables->edges.left[k] == T.left[j]
                && out.tables->edges.right[k] == T.right[j] && out.tables->edges.parent[k] >= NN) {
                u = out.tables->edges.parent[k];
            }
        }
        sym_assert(u != TSK_NULL, "lower half (left, right, u, child) present");
        found = 0;
        for (k = 0; k < (int) out.tables->edges.num_rows; k++) {
            found |= out.tables->edges.child[k] == u && out.tables->edges.parent[k] == T.parent[j]
                     && out.tables->edges.left[k] == T.left[j] && out.tables->edges.right[k] == T.right[j];
        }
        sym_assert(found, "upper half (left, right, parent, u) present");
        /* mutations lying on the edge with time >= cutoff move to u, all others keep their node */
        for (k = 0; k < NM; k++) {
            double x = site_pos[msite[k]], mt = mknown[k] ? mtime[k] : T.time[mnode[k]];
            if (mnode[k] == T.child[j] && T.left[j] <= x && x < T.right[j]) {
                sym_assert(out.tables->mutations.node[k] == (mt >= cut ? u : mnode[k]), "a mutation on a split edge moves to the new node iff its time >= cutoff");
            }
        }
    }
    for (k = 0; k < NM; k++) {
        double x = site_pos[msite[k]];
        tsk_id_t e;
        h_parent_at(&T, mnode[k], x, &e);
        if (e == TSK_NULL || newnode[e] == TSK_NULL) {
            sym_assert(out.tables->mutations.node[k] == mnode[k], "mutations not on a split edge keep their node");
        }
        sym_assert(out.tables->mutations.metadata[out.tables->mutations.metadata_offset[k]] == 'm' + k
                       && out.tables->mutations.site[k] == msite[k],
            "mutation row data and metadata survive");
    }
    sym_assert(tsk_site_table_equals(&t.sites, &out.tables->sites, 0), "sites unchanged");
    if (nsplit > 0) {
        sym_reach("split");
    }
    /* decapitate = split_edges then delete_older: nothing at or above the cutoff survives, everything below is as before */
    ret = tsk_table_collection_copy(out.tables, &d, 0);
    sym_assume(ret == 0);
    ret = tsk_table_collection_delete_older(&d, cut, 0);
    sym_assert(ret == 0, "delete_older on the split tables");
    for (k = 0; k < (int) d.edges.num_rows; k++) {
        sym_assert(d.nodes.time[d.edges.parent[k]] <= cut, "decapitate: no edge reaches above the cutoff");
    }
    for (j = 0; j < T.ne; j++) {
        if (T.time[T.child[j]] < cut) {
            found = 0;
            for (k = 0; k < (int) d.edges.num_rows; k++) {
                found |= d.edges.child[k] == T.child[j] && d.edges.left[k] == T.left[j] && d.edges.right[k] == T.right[j];
            }
            sym_assert(found, "decapitate: every lineage below the cutoff keeps its edge (to the parent or to a new root)");
        }
    }
    {
        tsk_treeseq_t dts;
        ret = tsk_treeseq_init(&dts, &d, TSK_TS_INIT_BUILD_INDEXES);
        sym_assert(ret == 0, "the decapitated tables are a valid tree sequence");
        tsk_treeseq_free(&dts);
    }
    tsk_table_collection_free(&d);
    tsk_treeseq_free(&out);
    tsk_treeseq_free(&ts);
    tsk_table_collection_free(&t);
    SYM_END();
    return 0;
}
#endif

#if MODE == 3
int
main_c11(void)
{
    tsk_table_collection_t t, sa, sb;
    tsk_treeseq_t ts, out;
    tsk_variant_t va, vb;
    tsk_id_t samples[MAXN], nmap[MAXN];
    int ret, j, k, ns = 0;

    if (h_build_treeseq(&t, &ts, &T) != 0) {
        return 0;
    }
    ret = tsk_treeseq_extend_haplotypes(&ts, 10, 0, &out);
    sym_assert(ret == 0, "extend_haplotypes succeeds");
    sym_assert(tsk_node_table_equals(&ts.tables->nodes, &out.tables->nodes, 0), "nodes unchanged");
    sym_assert(tsk_site_table_equals(&ts.tables->sites, &out.tables->sites, 0), "sites unchanged");
    sym_assert(out.tables->mutations.num_rows == NM, "no mutation added or removed");
    for (k = 0; k < NM; k++) {
        sym_assert(out.tables->mutations.site[k] == msite[k] && out.tables->mutations.metadata[out.tables->mutations.metadata_offset[k]] == 'm' + k
                       && out.tables->mutations.derived_state[out.tables->mutations.derived_state_offset[k]] == (k % 2 ? 'G' : 'C'),
            "only the node column of the mutation table may change");
    }
    for (j = 0; j < NN; j++) {
        if (T.flags[j] & TSK_NODE_IS_SAMPLE) {
            samples[ns++] = j;
        }
    }
    if (ns > 0 && NS > 0) {
        ret = tsk_variant_init(&va, &ts, NULL, 0, NULL, 0);
        sym_assume(ret == 0);
        ret = tsk_variant_init(&vb, &out, NULL, 0, NULL, 0);
        sym_assume(ret == 0);
        for (j = 0; j < NS; j++) {
            /* a "dormant" mutation sits on a node that is not part of the tree at its site (no parent, no children) */
            int dormant = 0, q;
            for (q = 0; q < NM; q++) {
                if (msite[q] == j && h_parent_at(&T, mnode[q], site_pos[j], NULL) == TSK_NULL
                    && h_num_children(&T, mnode[q], site_pos[j]) == 0) {
                    dormant = 1;
                }
            }
            ret = tsk_variant_decode(&va, j, 0);
            sym_assume(ret == 0);
            ret = tsk_variant_decode(&vb, j, 0);
            sym_assert(ret == 0, "decode after extend");
            for (k = 0; k < ns; k++) {
                int32_t a = va.genotypes[k], b = vb.genotypes[k];
                sym_assert((a == TSK_MISSING_DATA) == (b == TSK_MISSING_DATA), "missingness of every sample genotype is kept");
                if (a != TSK_MISSING_DATA && b != TSK_MISSING_DATA) {
                    int same = va.allele_lengths[a] == vb.allele_lengths[b] && va.alleles[a][0] == vb.alleles[b][0];
                    if (dormant) {
                        sym_assert(same, "every sample genotype is kept (site with a mutation on a node outside the tree at that site)");
                    } else {
                        sym_assert(same, "every sample genotype is kept");
                    }
                }
            }
        }
        tsk_variant_free(&va);
        tsk_variant_free(&vb);
    }
    if (ns > 0) {
        ret = tsk_table_collection_copy(ts.tables, &sa, 0);
        sym_assume(ret == 0);
        ret = tsk_table_collection_copy(out.tables, &sb, 0);
        sym_assume(ret == 0);
        ret = tsk_table_collection_simplify(&sa, samples, (tsk_size_t) ns, 0, nmap);
        sym_assert(ret == 0, "simplify input");
        ret = tsk_table_collection_simplify(&sb, samples, (tsk_size_t) ns, 0, nmap);
        sym_assert(ret == 0, "simplify output");
        sym_assert(tsk_table_collection_equals(&sa, &sb, TSK_CMP_IGNORE_PROVENANCE), "the simplified tree sequence is identical");
        tsk_table_collection_free(&sa);
        tsk_table_collection_free(&sb);
    }
    if (!tsk_edge_table_equals(&ts.tables->edges, &out.tables->edges, 0)) {
        sym_reach("extended");
    }
    tsk_treeseq_free(&out);
    tsk_treeseq_free(&ts);
    tsk_table_collection_free(&t);
    SYM_END();
    return 0;
}
#endif
