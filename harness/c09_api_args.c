/* C09: adversarial identifier / position / length arguments at C entry points
 * reached from the Python API.  The oracle is the engine's memory monitors
 * (bounds, use-after-free, double free, uninitialised reads, abort) plus
 * "returns a value or a negative error code" plus "a following valid call on
 * the same objects is still fine".  Identifier arguments are free int32.
 *
 * Base object: a valid 5-node, 2-tree sequence with one site/mutation,
 * one population and one individual.
 */
#include "common.h"
#include <tskit/convert.h>

#ifndef OP_LO
#define OP_LO 0
#endif
#ifndef OP_HI
#define OP_HI 24
#endif

static void
build_base(tsk_table_collection_t *t)
{
    int ret;
    tsk_id_t par[1] = { -1 };
    ret = tsk_table_collection_init(t, 0);
    sym_assume(ret == 0);
    t->sequence_length = 2;
    tsk_population_table_add_row(&t->populations, "p", 1);
    tsk_individual_table_add_row(&t->individuals, 0, NULL, 0, par, 1, "i", 1);
    tsk_node_table_add_row(&t->nodes, TSK_NODE_IS_SAMPLE, 0, 0, 0, "a", 1);
    tsk_node_table_add_row(&t->nodes, TSK_NODE_IS_SAMPLE, 0, 0, -1, NULL, 0);
    tsk_node_table_add_row(&t->nodes, TSK_NODE_IS_SAMPLE, 0, -1, -1, NULL, 0);
    tsk_node_table_add_row(&t->nodes, 0, 1, -1, -1, NULL, 0);
    tsk_node_table_add_row(&t->nodes, 0, 2, -1, -1, NULL, 0);
    tsk_edge_table_add_row(&t->edges, 0, 2, 3, 0, NULL, 0);
    tsk_edge_table_add_row(&t->edges, 0, 2, 3, 1, NULL, 0);
    tsk_edge_table_add_row(&t->edges, 0, 1, 4, 2, NULL, 0);
    tsk_edge_table_add_row(&t->edges, 0, 2, 4, 3, NULL, 0);
    tsk_site_table_add_row(&t->sites, 0.5, "A", 1, NULL, 0);
    tsk_mutation_table_add_row(&t->mutations, 0, 3, -1, TSK_UNKNOWN_TIME, "T", 1, NULL, 0);
    tsk_migration_table_add_row(&t->migrations, 0, 1, 0, 0, 0, 0.5, NULL, 0);
    tsk_provenance_table_add_row(&t->provenances, "ts", 2, "rec", 3);
    ret = tsk_table_collection_build_index(t, 0);
    sym_assume(ret == 0);
}

static double
pos_arg(const char *name)
{
    int k = sym_choice("pos_kind", 0, 3);
    if (k == 0) {
        return sym_f64_int(name);
    }
    return h_special(k - 1);
}

static int
one(tsk_size_t K, const double *x, tsk_size_t M, double *r, void *p)
{
    (void) K;
    (void) x;
    (void) M;
    (void) p;
    r[0] = 1;
    return 0;
}

int
main_c09(void)
{
    tsk_table_collection_t t, t2;
    tsk_treeseq_t ts, ts2;
    tsk_tree_t tree;
    tsk_variant_t var;
    tsk_identity_segments_t ibd;
    tsk_edge_table_t res;
    int ret = 0, op;
    tsk_id_t s0, s1, ids[2], map5[5], nm[5];
    tsk_size_t sz[2] = { 1, 1 }, n;
    double d, w[3], out[40];
    char buf[16];

    build_base(&t);
    ret = tsk_treeseq_init(&ts, &t, 0);
    sym_assume(ret == 0);
    op = sym_choice("op", OP_LO, OP_HI);
    s0 = sym_i32("s0");
    s1 = sym_i32("s1");
    ids[0] = s0;
    ids[1] = s1;

    switch (op) {
        case 0:
            ret = tsk_table_collection_ibd_within(&t, &ibd, ids, 2, 0, 1e300, TSK_IBD_STORE_PAIRS);
            if (ret == 0) {
                tsk_identity_segment_list_t *lst;
                ret = tsk_identity_segments_get(&ibd, sym_i32("a"), sym_i32("b"), &lst);
            }
            tsk_identity_segments_free(&ibd);
            break;
        case 1:
            ret = tsk_table_collection_ibd_between(&t, &ibd, 2, sz, ids, 0, 1e300, 0);
            tsk_identity_segments_free(&ibd);
            break;
        case 2:
            tsk_edge_table_init(&res, 0);
            ret = tsk_table_collection_link_ancestors(&t, ids, 1, ids + 1, 1, 0, &res);
            tsk_edge_table_free(&res);
            break;
        case 3:
            ret = tsk_table_collection_copy(&t, &t2, 0);
            sym_assume(ret == 0);
            ret = tsk_table_collection_simplify(&t2, ids, 2, 0, nm);
            if (ret == 0) {
                sym_assert(tsk_table_collection_check_integrity(&t2, 0) == 0, "simplify output has integrity");
            }
            tsk_table_collection_free(&t2);
            break;
        case 4:
            ret = tsk_table_collection_copy(&t, &t2, 0);
            sym_assume(ret == 0);
            ret = tsk_table_collection_subset(&t2, ids, 2, 0);
            if (ret == 0) {
                sym_assert(tsk_table_collection_check_integrity(&t2, 0) == 0, "subset output has integrity");
            }
            tsk_table_collection_free(&t2);
            break;
        case 5:
            ret = tsk_table_collection_copy(&t, &t2, 0);
            sym_assume(ret == 0);
            map5[0] = s0;
            map5[1] = s1;
            map5[2] = 2;
            map5[3] = 3;
            map5[4] = 4;
            ret = tsk_table_collection_union(&t2, &t, map5, TSK_UNION_NO_CHECK_SHARED);
            if (ret == 0) {
                sym_assert(tsk_table_collection_check_integrity(&t2, 0) == 0, "union output has integrity");
            }
            tsk_table_collection_free(&t2);
            break;
        case 6: {
            tsk_node_t a;
            tsk_edge_t b;
            tsk_site_t c;
            tsk_mutation_t e;
            tsk_migration_t f;
            tsk_individual_t g;
            tsk_population_t h;
            tsk_provenance_t i;
            int r1 = tsk_node_table_get_row(&t.nodes, s0, &a);
            int r2 = tsk_edge_table_get_row(&t.edges, s0, &b);
            int r3 = tsk_site_table_get_row(&t.sites, s0, &c);
            int r4 = tsk_mutation_table_get_row(&t.mutations, s0, &e);
            int r5 = tsk_migration_table_get_row(&t.migrations, s0, &f);
            int r6 = tsk_individual_table_get_row(&t.individuals, s0, &g);
            int r7 = tsk_population_table_get_row(&t.populations, s0, &h);
            int r8 = tsk_provenance_table_get_row(&t.provenances, s0, &i);
            sym_assert((r1 == 0) == (s0 >= 0 && s0 < 5), "node get_row accepts exactly valid ids");
            sym_assert((r2 == 0) == (s0 >= 0 && s0 < 4), "edge get_row accepts exactly valid ids");
            sym_assert((r3 == 0) == (s0 == 0) && (r4 == 0) == (s0 == 0) && (r5 == 0) == (s0 == 0)
                           && (r6 == 0) == (s0 == 0) && (r7 == 0) == (s0 == 0) && (r8 == 0) == (s0 == 0),
                "single-row tables accept exactly id 0");
            r1 = tsk_treeseq_get_node(&ts, s1, &a);
            r2 = tsk_treeseq_get_edge(&ts, s1, &b);
            r3 = tsk_treeseq_get_site(&ts, s1, &c);
            r4 = tsk_treeseq_get_mutation(&ts, s1, &e);
            r5 = tsk_treeseq_get_migration(&ts, s1, &f);
            r6 = tsk_treeseq_get_individual(&ts, s1, &g);
            r7 = tsk_treeseq_get_population(&ts, s1, &h);
            r8 = tsk_treeseq_get_provenance(&ts, s1, &i);
            sym_assert((r1 == 0) == (s1 >= 0 && s1 < 5) && (r2 == 0) == (s1 >= 0 && s1 < 4)
                           && (r3 == 0) == (s1 == 0) && (r4 == 0) == (s1 == 0) && (r5 == 0) == (s1 == 0)
                           && (r6 == 0) == (s1 == 0) && (r7 == 0) == (s1 == 0) && (r8 == 0) == (s1 == 0),
                "treeseq getters accept exactly valid ids");
            ret = 0;
            break;
        }
        case 7: {
            tsk_id_t p;
            int depth;
            tsk_size_t ns;
            ret = tsk_tree_init(&tree, &ts, sym_choice("opt", 0, 1) ? TSK_SAMPLE_LISTS : 0);
            sym_assume(ret == 0);
            ret = tsk_tree_first(&tree);
            sym_assume(ret == TSK_TREE_OK);
            /* the virtual root (id == num_nodes) is a legal argument for tree queries */
            ret = tsk_tree_get_parent(&tree, s0, &p);
            sym_assert((ret == 0) == (s0 >= 0 && s0 <= 5), "get_parent accepts nodes and the virtual root");
            ret = tsk_tree_get_time(&tree, s0, &d);
            ret = tsk_tree_get_depth(&tree, s0, &depth);
            ret = tsk_tree_get_branch_length(&tree, s0, &d);
            ret = tsk_tree_get_total_branch_length(&tree, s0, &d);
            ret = tsk_tree_get_num_samples(&tree, s0, &ns);
            ret = tsk_tree_get_num_tracked_samples(&tree, s0, &ns);
            ret = tsk_tree_get_mrca(&tree, s0, s1, &p);
            sym_assert((ret == 0) == (s0 >= 0 && s0 <= 5 && s1 >= 0 && s1 <= 5), "get_mrca accepts exactly valid ids");
            (void) tsk_tree_is_descendant(&tree, s0, s1);
            ret = tsk_tree_next(&tree);
            sym_assert(ret == TSK_TREE_OK, "tree still usable");
            tsk_tree_free(&tree);
            ret = 0;
            break;
        }
        case 8:
            ret = tsk_tree_init(&tree, &ts, 0);
            sym_assume(ret == 0);
            ret = tsk_tree_set_tracked_samples(&tree, 2, ids);
            sym_assert(ret <= 0, "error code");
            if (ret == 0) {
                sym_assert(s0 >= 0 && s0 < 3 && s1 >= 0 && s1 < 3 && s0 != s1, "tracked samples must be distinct samples");
            }
            ret = tsk_tree_first(&tree);
            sym_assert(ret == TSK_TREE_OK, "tree usable after set_tracked_samples");
            ret = tsk_tree_next(&tree);
            sym_assert(ret == TSK_TREE_OK, "tree usable after set_tracked_samples");
            tsk_tree_free(&tree);
            ret = 0;
            break;
        case 9:
            ret = tsk_tree_init(&tree, &ts, 0);
            sym_assume(ret == 0);
            if (sym_choice("from", 0, 1)) {
                tsk_tree_last(&tree);
            }
            d = pos_arg("x");
            ret = tsk_tree_seek(&tree, d, 0);
            /* NaN counts as out of range */
            sym_assert((ret == 0) == (d >= 0 && d < 2), "seek accepts exactly positions in [0,L)");
            if (ret == 0 && d == d) {
                sym_assert(tree.interval.left <= d && d < tree.interval.right, "seek lands on the containing tree");
            }
            ret = tsk_tree_seek_index(&tree, s0, 0);
            sym_assert((ret == 0) == (s0 >= 0 && s0 < 2), "seek_index accepts exactly valid tree indexes");
            tsk_tree_free(&tree);
            ret = 0;
            break;
        case 10:
            ret = tsk_variant_init(&var, &ts, ids, sym_choice("nsamp", 0, 2), NULL,
                sym_choice("iso", 0, 1) ? TSK_ISOLATED_NOT_MISSING : 0);
            sym_assert(ret <= 0, "error code");
            if (ret == 0) {
                ret = tsk_variant_decode(&var, sym_i32("site"), 0);
                sym_assert(ret <= 0, "error code");
                ret = tsk_variant_decode(&var, 0, 0);
                sym_assert(ret == 0, "variant usable after a rejected decode");
            }
            tsk_variant_free(&var);
            ret = 0;
            break;
        case 11:
            ret = tsk_tree_init(&tree, &ts, 0);
            sym_assume(ret == 0);
            tsk_tree_first(&tree);
            n = (tsk_size_t) sym_choice("bufsize", 0, 16);
            ret = tsk_convert_newick(&tree, s0, (unsigned int) sym_choice("prec", 0, 2),
                sym_choice("legacy", 0, 1) ? TSK_NEWICK_LEGACY_MS_LABELS : 0, n, buf);
            sym_assert(ret <= 0, "error code");
            if (ret == 0) {
                sym_assert(strlen(buf) < n, "newick output fits the buffer and is terminated");
            }
            tsk_tree_free(&tree);
            ret = 0;
            break;
        case 12: {
            int32_t g[3], anc;
            tsk_state_transition_t *tr = NULL;
            ret = tsk_tree_init(&tree, &ts, 0);
            sym_assume(ret == 0);
            tsk_tree_first(&tree);
            /* allele values between 3 and 61 only lengthen the allele loops: outside the claim */
            sym_assume(s0 <= 2 || s0 >= 62);
            g[0] = s0;
            g[1] = sym_choice("g1", -1, 1);
            g[2] = sym_choice("g2", -1, 1);
            anc = sym_i32("anc");
            sym_assume(anc <= 2 || anc >= 62);
            ret = tsk_tree_map_mutations(&tree, g, NULL,
                sym_choice("fixanc", 0, 1) ? TSK_MM_FIXED_ANCESTRAL_STATE : 0, &anc, &n, &tr);
            sym_assert(ret <= 0, "error code");
            free(tr);
            tsk_tree_free(&tree);
            ret = 0;
            break;
        }
        case 13:
            w[0] = sym_f64_int("w0");
            w[1] = sym_f64_int("w1");
            w[2] = sym_f64_int("w2");
            ret = tsk_treeseq_diversity(&ts, 2, sz, ids, 2, w, TSK_STAT_BRANCH, out);
            sym_assert(ret <= 0, "error code");
            if (ret == 0) {
                sym_assert(w[0] == 0 && w[0] < w[1] && w[1] < w[2] && w[2] == 2, "windows must cover [0,L] increasing");
                sym_assert(s0 >= 0 && s0 < 3 && s1 >= 0 && s1 < 3, "sample sets must contain samples");
            }
            break;
        case 14: {
            double W[3] = { 1, 1, 1 };
            w[0] = pos_arg("w0");
            w[1] = 2;
            ret = tsk_treeseq_general_stat(&ts, 1, W, 1, one, NULL, 1, w, TSK_STAT_SITE, out);
            sym_assert(ret <= 0, "error code");
            break;
        }
        case 15:
            ret = tsk_node_table_update_row(&t.nodes, s0, 0, 0.0, -1, -1, "zz", 2);
            sym_assert((ret == 0) == (s0 >= 0 && s0 < 5), "node update_row accepts exactly valid ids");
            ret = tsk_edge_table_update_row(&t.edges, s1, 0, 1, 3, 0, NULL, 0);
            sym_assert((ret == 0) == (s1 >= 0 && s1 < 4), "edge update_row accepts exactly valid ids");
            ret = tsk_mutation_table_update_row(&t.mutations, s1, 0, 0, -1, 0, "GG", 2, "m", 1);
            sym_assert((ret == 0) == (s1 == 0), "mutation update_row accepts exactly valid ids");
            ret = 0;
            break;
        case 16:
            ret = tsk_treeseq_simplify(&ts, ids, 2, sym_choice("flt", 0, 1) ? TSK_SIMPLIFY_KEEP_UNARY : 0, &ts2, nm);
            sym_assert(ret <= 0, "error code");
            if (ret == 0) {
                sym_assert(s0 >= 0 && s0 < 5 && s1 >= 0 && s1 < 5 && s0 != s1, "simplify samples must be distinct nodes");
                tsk_treeseq_free(&ts2);
            }
            ret = 0;
            break;
        case 17: {
            tsk_bool_t keep[1];
            tsk_id_t idm[1];
            ret = tsk_table_collection_copy(&t, &t2, 0);
            sym_assume(ret == 0);
            /* a dangling mutation parent must be reported by keep_rows, not followed */
            t2.mutations.parent[0] = s0;
            keep[0] = 1;
            ret = tsk_mutation_table_keep_rows(&t2.mutations, keep, 0, idm);
            sym_assert(ret <= 0, "error code");
            t2.individuals.parents[0] = s1;
            ret = tsk_individual_table_keep_rows(&t2.individuals, keep, 0, idm);
            sym_assert(ret <= 0, "error code");
            tsk_table_collection_free(&t2);
            ret = 0;
            break;
        }
        case 18: {
            /* equality of tables with different numbers of rows (Table.__eq__ / equals / assert_equals) */
            tsk_edge_table_t big;
            int n = sym_choice("rows", 0, 12), q;
            tsk_edge_table_init(&big, 0);
            tsk_edge_table_set_max_rows_increment(&big, 1);
            for (q = 0; q < n; q++) {
                tsk_edge_table_add_row(&big, 0, 1, 3, 0, NULL, 0);
            }
            (void) tsk_edge_table_equals(&big, &ts.tables->edges, 0);
            (void) tsk_edge_table_equals(&ts.tables->edges, &big, 0);
            (void) tsk_node_table_equals(&t.nodes, &ts.tables->nodes, 0);
            tsk_edge_table_free(&big);
            ret = 0;
            break;
        }
        case 19:
            /* allele frequency spectrum: free sample-set members and windows */
            w[0] = sym_f64_int("w0");
            w[1] = sym_f64_int("w1");
            w[2] = sym_f64_int("w2");
            ret = tsk_treeseq_allele_frequency_spectrum(&ts, 2, sz, ids, 2, w,
                (sym_choice("mode", 0, 1) ? TSK_STAT_BRANCH : TSK_STAT_SITE) | (sym_choice("pol", 0, 1) ? TSK_STAT_POLARISED : 0), out);
            if (ret == 0) {
                sym_assert(w[0] == 0 && w[0] < w[1] && w[1] < w[2] && w[2] == 2, "windows must cover [0,L] increasing");
                sym_assert(s0 >= 0 && s0 < 3 && s1 >= 0 && s1 < 3, "sample sets must contain samples (the two sets may overlap)");
            }
            break;
        case 20:
            w[0] = sym_f64_int("w0");
            w[1] = sym_f64_int("w1");
            w[2] = sym_f64_int("w2");
            ret = tsk_treeseq_divergence_matrix(&ts, 2, sz, ids, 2, w, sym_choice("mode", 0, 1) ? TSK_STAT_BRANCH : TSK_STAT_SITE, out);
            if (ret == 0) {
                sym_assert(0 <= w[0] && w[0] < w[1] && w[1] < w[2] && w[2] <= 2, "windows must be increasing inside [0,L]");
                sym_assert(s0 >= 0 && s0 < 3 && s1 >= 0 && s1 < 3 && s0 != s1, "sample sets must contain distinct samples");
            }
            break;
        case 21: {
            tsk_id_t idx[2], bins[5];
            int q;
            idx[0] = sym_i32("i0");
            idx[1] = sym_i32("i1");
            for (q = 0; q < 5; q++) {
                bins[q] = q == 3 ? sym_i32("bin3") : q;
            }
            /* the Python layer computes the node -> time-window map itself (np.digitize): null or a window index.
             * (Through the C API alone a bin of INT32_MAX passes check_node_bin_map by signed overflow of
             * max_index + 1 and is then used as an index: noted in DESIGN.md, outside this property.) */
            sym_assume(bins[3] >= -1 && bins[3] < 5);
            w[0] = 0;
            w[1] = sym_f64_int("w1");
            w[2] = 2;
            ret = tsk_treeseq_pair_coalescence_counts(&ts, 2, sz, ids, 1, idx, 2, w, 5, bins, 0, out);
            if (ret == 0) {
                sym_assert(idx[0] >= 0 && idx[0] < 2 && idx[1] >= 0 && idx[1] < 2, "set indexes must name sample sets");
                sym_assert(bins[3] >= -1 && bins[3] < 5, "node bins must be null or inside the output");
                sym_assert(s0 >= 0 && s0 < 3 && s1 >= 0 && s1 < 3 && s0 != s1, "sample sets must contain distinct samples");
            }
            break;
        }
        case 22: {
            const tsk_id_t *refs[2];
            tsk_id_t focal[2], r0[1], r1[1];
            tsk_size_t rs[2] = { 1, 1 };
            focal[0] = s0;
            focal[1] = 1;
            r0[0] = s1;
            r1[0] = sym_i32("r1");
            refs[0] = r0;
            refs[1] = r1;
            ret = tsk_treeseq_genealogical_nearest_neighbours(&ts, focal, 2, refs, rs, 2, 0, out);
            if (ret == 0) {
                sym_assert(s0 >= 0 && s0 < 5 && s1 >= 0 && s1 < 5 && r1[0] >= 0 && r1[0] < 5, "focal and reference nodes must be nodes");
            }
            break;
        }
        case 23: {
            const tsk_id_t *refs[2];
            tsk_id_t r0[1], r1[1];
            tsk_size_t rs[2] = { 1, 1 };
            r0[0] = s0;
            r1[0] = s1;
            refs[0] = r0;
            refs[1] = r1;
            ret = tsk_treeseq_mean_descendants(&ts, refs, rs, 2, 0, out);
            if (ret == 0) {
                sym_assert(s0 >= 0 && s0 < 5 && s1 >= 0 && s1 < 5, "reference nodes must be nodes");
            }
            break;
        }
        case 24: {
            /* parsimony with free genotype values */
            int32_t g[3];
            tsk_size_t nt;
            tsk_state_transition_t *tr = NULL;
            int32_t anc;
            g[0] = s0;
            g[1] = s1;
            g[2] = 0;
            ret = tsk_tree_init(&tree, &ts, 0);
            sym_assume(ret == 0);
            ret = tsk_tree_first(&tree);
            sym_assume(ret == TSK_TREE_OK);
            ret = tsk_tree_map_mutations(&tree, g, NULL, 0, &anc, &nt, &tr);
            if (ret == 0) {
                sym_assert(s0 >= -1 && s0 < 64 && s1 >= -1 && s1 < 64, "genotypes must be missing or below 64");
                free(tr);
            }
            tsk_tree_free(&tree);
            break;
        }
    }
    sym_assert(ret <= 0, "entry point returns 0 or a negative error code");
    /* a following valid call on the same objects is fine */
    sym_assert(tsk_table_collection_check_integrity(ts.tables, TSK_CHECK_TREES) == 2, "tree sequence intact afterwards");
    tsk_treeseq_free(&ts);
    tsk_table_collection_free(&t);
    SYM_END();
    return 0;
}
