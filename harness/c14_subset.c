/* C14: subset(nodes) keeps exactly the referenced data with ids remapped and
 * row data unchanged; splitting with subset and re-joining with union gives
 * back the original up to canonical ordering.
 * Row data (coordinates, times, flags, metadata bytes) are solver variables;
 * the reference structure (which node is in which individual / population,
 * which node a mutation sits on, the node list) is enumerated. */
#include "common.h"

#ifndef MODE
#define MODE 1
#endif
#define NNODE 4
#define NEDGE 3
#define NSITE 2
#define NMUT 3
#define NINDS 3
#define NPOPS 2

static tsk_id_t n_ind[NNODE], n_pop[NNODE], m_node[NMUT], m_site[NMUT], m_par[NMUT], i_par[NINDS], i_par2[NINDS][2];
static int i_npar[NINDS];
static tsk_flags_t n_flags[NNODE];
static double n_time[NNODE], e_left[NEDGE], s_pos[NSITE];
static const tsk_id_t e_parent[NEDGE] = { 2, 2, 3 }, e_child[NEDGE] = { 0, 1, 2 };

static void
build(tsk_table_collection_t *t)
{
    int j, ret;
    char nm[16], tag;
    ret = tsk_table_collection_init(t, 0);
    sym_assume(ret == 0);
    t->sequence_length = 10;
    for (j = 0; j < NPOPS; j++) {
        tag = (char) ('P' + j);
        tsk_population_table_add_row(&t->populations, &tag, 1);
    }
    for (j = 0; j < NINDS; j++) {
        /* individual 1 has a parents list by choice: [-1], [0,-1], [2,-1] (a later row), [-1,0]; the others have [-1] */
        static const tsk_id_t lists[5][2] = { { -1, -1 }, { 0, -1 }, { 2, -1 }, { -1, 0 }, { 1, -1 } };
        static const int lens[5] = { 1, 2, 2, 2, 2 };
        int c = (j == 1 && MODE == 1) ? sym_choice("iparents", 0, 3) : 0;
        if (j == 2 && MODE == 2 && sym_choice("ipar2", 0, 1)) {
            c = 4; /* individual 2 (of node 0) is a child of individual 1 (of node 1): a pedigree link inside one part */
        }
        i_npar[j] = lens[c];
        i_par2[j][0] = lists[c][0];
        i_par2[j][1] = lists[c][1];
        i_par[j] = -1;
        tag = (char) ('I' + j);
        tsk_individual_table_add_row(&t->individuals, (tsk_flags_t) j, NULL, 0, i_par2[j], (tsk_size_t) i_npar[j], &tag, 1);
    }
    for (j = 0; j < NNODE; j++) {
        n_flags[j] = (tsk_flags_t) sym_i32(sym_nm(nm, "nf", j));
        n_time[j] = j < 2 ? 0 : j - 1;
        /* node 0 in individual 2 or none, node 1 in individual 1; node 0 in population 1, node 1 in population 0 */
        n_ind[j] = j == 0 ? (sym_choice("ni0", 0, 1) ? 2 : -1) : j == 1 ? 1 : -1;
        n_pop[j] = j == 0 ? 1 : j == 1 ? 0 : -1;
        tag = (char) ('a' + j);
        tsk_node_table_add_row(&t->nodes, n_flags[j], n_time[j], n_pop[j], n_ind[j], &tag, 1);
    }
    for (j = 0; j < NEDGE; j++) {
#if MODE == 2
        e_left[j] = j == 0 ? 0 : 2; /* concrete: the union harness is about structure */
#else
        e_left[j] = sym_f64_int(sym_nm(nm, "el", j));
        sym_assume(0 <= e_left[j] && e_left[j] < 9);
#endif
        tag = (char) ('e' + j);
        tsk_edge_table_add_row(&t->edges, e_left[j], e_left[j] + 1, e_parent[j], e_child[j], &tag, 1);
    }
    for (j = 0; j < NSITE; j++) {
        s_pos[j] = 1 + 2 * j;
        tag = (char) ('s' + j);
        tsk_site_table_add_row(&t->sites, s_pos[j], "A", 1, &tag, 1);
    }
    for (j = 0; j < NMUT; j++) {
        m_site[j] = j < 2 ? 0 : 1;
        m_node[j] = j < 2 ? 2 * sym_choice(sym_nm(nm, "mn", j), 0, 1) : 1 + 2 * sym_choice(sym_nm(nm, "mn", j), 0, 1);
        m_par[j] = (j == 1 && MODE == 1) ? sym_choice("mp", -1, 0) : -1;
        tag = (char) ('m' + j);
        tsk_mutation_table_add_row(&t->mutations, m_site[j], m_node[j], m_par[j], TSK_UNKNOWN_TIME, "T", 1, &tag, 1);
    }
}

#if MODE == 1
int
main_c14(void)
{
    tsk_table_collection_t t, orig;
    int pass;
    tsk_id_t list[NNODE], nmap[NNODE], imap[NINDS], pmap[NPOPS], smap[NSITE], mmap[NMUT];
    int n, j, k, ret, keep_unref, no_change_pop, cnt;
    tsk_flags_t opt = 0;
    char nm[16];

    build(&t);
    n = sym_choice("n", 0, 3);
    for (j = 0; j < n; j++) {
        list[j] = sym_choice(sym_nm(nm, "u", j), 0, NNODE - 1);
        for (k = 0; k < j; k++) {
            if (list[k] == list[j]) {
                sym_assume(0); /* duplicates are C09's subject */
            }
        }
    }
    ret = tsk_table_collection_copy(&t, &orig, 0);
    sym_assume(ret == 0);
    for (pass = 0; pass < 4; pass++) {
    if (pass > 0) {
        tsk_table_collection_free(&t);
        ret = tsk_table_collection_copy(&orig, &t, 0);
        sym_assume(ret == 0);
    }
    keep_unref = pass & 1;
    no_change_pop = (pass >> 1) & 1;
    opt = (keep_unref ? TSK_SUBSET_KEEP_UNREFERENCED : 0) | (no_change_pop ? TSK_SUBSET_NO_CHANGE_POPULATIONS : 0);
    ret = tsk_table_collection_subset(&t, list, (tsk_size_t) n, opt);
    sym_assert(ret == 0, "subset succeeds");

    /* --- expected id maps, from the documented rule --- */
    for (j = 0; j < NNODE; j++) {
        nmap[j] = -1;
    }
    for (j = 0; j < n; j++) {
        nmap[list[j]] = j;
    }
    /* individuals: kept if referenced by a listed node (or all), in original order */
    cnt = 0;
    for (j = 0; j < NINDS; j++) {
        int ref = keep_unref;
        for (k = 0; k < n; k++) {
            ref |= n_ind[list[k]] == j;
        }
        imap[j] = ref ? cnt++ : -1;
    }
    sym_assert(t.individuals.num_rows == (tsk_size_t) cnt, "individuals: exactly the referenced ones (all with keep_unreferenced)");
    for (j = 0; j < NINDS; j++) {
        if (imap[j] != -1) {
            tsk_individual_t row;
            tsk_individual_table_get_row(&t.individuals, imap[j], &row);
            sym_assert(row.flags == (tsk_flags_t) j && row.metadata_length == 1 && row.metadata[0] == 'I' + j, "individual row data unchanged");
            {
                /* parents: nulls stay, retained parents are remapped, parents that are not retained are dropped */
                tsk_id_t want[2];
                int nw = 0, q;
                for (q = 0; q < i_npar[j]; q++) {
                    tsk_id_t p = i_par2[j][q];
                    if (p == -1) {
                        want[nw++] = -1;
                    } else if (imap[p] != -1) {
                        want[nw++] = imap[p];
                    }
                }
                sym_assert(row.parents_length == (tsk_size_t) nw, "individual parents: nulls kept, retained remapped, others dropped");
                for (q = 0; q < nw; q++) {
                    sym_assert(row.parents[q] == want[q], "individual parent ids remapped in order");
                }
            }
        }
    }
    /* populations: unchanged table, or reordered by first reference from the listed nodes (+ the rest if kept) */
    cnt = 0;
    for (j = 0; j < NPOPS; j++) {
        pmap[j] = no_change_pop ? j : -1;
    }
    if (!no_change_pop) {
        for (k = 0; k < n; k++) {
            tsk_id_t p = n_pop[list[k]];
            if (p != -1 && pmap[p] == -1) {
                pmap[p] = cnt++;
            }
        }
        if (keep_unref) {
            for (j = 0; j < NPOPS; j++) {
                if (pmap[j] == -1) {
                    pmap[j] = cnt++;
                }
            }
        }
    } else {
        cnt = NPOPS;
    }
    sym_assert(t.populations.num_rows == (tsk_size_t) cnt, "populations: referenced ones in order of first use, or all");
    for (j = 0; j < NPOPS; j++) {
        if (pmap[j] != -1) {
            sym_assert(t.populations.metadata[t.populations.metadata_offset[pmap[j]]] == 'P' + j, "population row data unchanged");
        }
    }
    /* nodes: the listed nodes in the listed order */
    sym_assert(t.nodes.num_rows == (tsk_size_t) n, "nodes are the listed nodes");
    for (j = 0; j < n; j++) {
        tsk_id_t u = list[j];
        sym_assert(t.nodes.flags[j] == n_flags[u] && t.nodes.time[j] == n_time[u] && t.nodes.metadata[t.nodes.metadata_offset[j]] == 'a' + u,
            "node row data unchanged, in the listed order");
        sym_assert(t.nodes.individual[j] == (n_ind[u] == -1 ? -1 : imap[n_ind[u]]), "node.individual remapped");
        sym_assert(t.nodes.population[j] == (n_pop[u] == -1 ? -1 : pmap[n_pop[u]]), "node.population remapped");
    }
    /* edges: exactly those with both ends listed, in the original order */
    cnt = 0;
    for (j = 0; j < NEDGE; j++) {
        if (nmap[e_parent[j]] != -1 && nmap[e_child[j]] != -1) {
            sym_assert((tsk_size_t) cnt < t.edges.num_rows && t.edges.parent[cnt] == nmap[e_parent[j]]
                           && t.edges.child[cnt] == nmap[e_child[j]] && t.edges.left[cnt] == e_left[j]
                           && t.edges.right[cnt] == e_left[j] + 1 && t.edges.metadata[t.edges.metadata_offset[cnt]] == 'e' + j,
                "an edge with both ends listed is kept with remapped ids and unchanged data");
            cnt++;
        }
    }
    sym_assert(t.edges.num_rows == (tsk_size_t) cnt, "no other edges");
    /* mutations on listed nodes, their sites */
    cnt = 0;
    for (j = 0; j < NMUT; j++) {
        mmap[j] = nmap[m_node[j]] != -1 ? cnt++ : -1;
    }
    sym_assert(t.mutations.num_rows == (tsk_size_t) cnt, "mutations: exactly those on listed nodes");
    cnt = 0;
    for (j = 0; j < NSITE; j++) {
        int ref = keep_unref;
        for (k = 0; k < NMUT; k++) {
            ref |= mmap[k] != -1 && m_site[k] == j;
        }
        smap[j] = ref ? cnt++ : -1;
    }
    sym_assert(t.sites.num_rows == (tsk_size_t) cnt, "sites: those with a retained mutation (all with keep_unreferenced)");
    for (j = 0; j < NSITE; j++) {
        if (smap[j] != -1) {
            sym_assert(t.sites.position[smap[j]] == s_pos[j] && t.sites.metadata[t.sites.metadata_offset[smap[j]]] == 's' + j, "site row data unchanged");
        }
    }
    for (j = 0; j < NMUT; j++) {
        if (mmap[j] != -1) {
            k = mmap[j];
            sym_assert(t.mutations.node[k] == nmap[m_node[j]] && t.mutations.site[k] == smap[m_site[j]]
                           && t.mutations.metadata[t.mutations.metadata_offset[k]] == 'm' + j,
                "mutation ids remapped, row data unchanged");
            sym_assert(t.mutations.parent[k] == (m_par[j] == -1 ? -1 : mmap[m_par[j]]), "mutation.parent remapped");
        }
    }
    sym_assert(tsk_table_collection_check_integrity(&t, 0) == 0, "the subset has referential integrity");
    }
    tsk_table_collection_free(&t);
    tsk_table_collection_free(&orig);
    SYM_END();
    return 0;
}
#endif

#if MODE == 2
/* split by subset, re-join with union, compare canonical forms */
int
main_c14(void)
{
    tsk_table_collection_t t, a, b, canon;
    tsk_id_t la[NNODE], lb[NNODE], mapping[NNODE], posa[NNODE];
    int na = 0, nb = 0, j, ret, cover_ok = 1, inA[NNODE], inB[NNODE];
    char nm[16];

    build(&t);
    ret = tsk_table_collection_sort(&t, NULL, 0);
    sym_assume(ret == 0);
    /* the quantifier is over valid tree sequences: mutation parents as computed, and the result must load */
    ret = tsk_table_collection_build_index(&t, 0);
    sym_assume(ret == 0);
    ret = tsk_table_collection_compute_mutation_parents(&t, 0);
    if (ret != 0) {
        sym_assume(0);
    }
    for (j = 0; j < NMUT; j++) {
        m_par[j] = t.mutations.parent[j];
    }
    for (j = 0; j < NNODE; j++) {
        /* each node goes to part A, part B or both (the shared portion) */
        int w = sym_choice(sym_nm(nm, "w", j), 0, 2);
        inA[j] = w != 1;
        inB[j] = w != 0;
        posa[j] = -1;
        if (inA[j]) {
            posa[j] = na;
            la[na++] = j;
        }
        if (inB[j]) {
            lb[nb++] = j;
        }
    }
    /* the two parts must contain every edge between them, and a mutation's parent together with the mutation */
    for (j = 0; j < NEDGE; j++) {
        cover_ok &= (inA[e_parent[j]] && inA[e_child[j]]) || (inB[e_parent[j]] && inB[e_child[j]]);
        /* edges inside the shared part are present in both */
    }
    if (!cover_ok) {
        sym_assume(0);
    }
    for (j = 0; j < NMUT; j++) {
        if (m_par[j] != -1 && inA[m_node[j]] != inA[m_node[m_par[j]]]) {
            sym_assume(0);
        }
        if (m_par[j] != -1 && inB[m_node[j]] != inB[m_node[m_par[j]]]) {
            sym_assume(0);
        }
    }
    /* individuals whose nodes straddle the parts, or parents across parts, are outside this harness */
    if (i_npar[2] != 1) {
        /* the pedigree link needs both individuals' nodes, and they must travel together */
        if (n_ind[0] != 2 || inA[0] != inA[1] || inB[0] != inB[1]) {
            sym_assume(0);
        }
        sym_reach("pedigree");
    }
    ret = tsk_table_collection_copy(&t, &a, 0);
    sym_assume(ret == 0);
    ret = tsk_table_collection_copy(&t, &b, 0);
    sym_assume(ret == 0);
    if (sym_choice("bswap", 0, 1)) {
        /* the other part lists its individuals in a different row order (legal: e.g. the result of an earlier union) */
        tsk_individual_table_t tmp;
        static const tsk_id_t order[NINDS] = { 0, 2, 1 }; /* new row k is old row order[k]; the permutation is its own inverse */
        ret = tsk_individual_table_init(&tmp, 0);
        sym_assume(ret == 0);
        ret = tsk_individual_table_extend(&tmp, &b.individuals, NINDS, order, 0);
        sym_assume(ret == 0);
        tsk_individual_table_clear(&b.individuals);
        ret = tsk_individual_table_extend(&b.individuals, &tmp, NINDS, NULL, 0);
        sym_assume(ret == 0);
        tsk_individual_table_free(&tmp);
        for (j = 0; j < (int) b.individuals.parents_length; j++) {
            if (b.individuals.parents[j] != TSK_NULL) {
                b.individuals.parents[j] = order[b.individuals.parents[j]];
            }
        }
        for (j = 0; j < NNODE; j++) {
            if (b.nodes.individual[j] != TSK_NULL) {
                b.nodes.individual[j] = order[b.nodes.individual[j]];
            }
        }
        sym_reach("individuals-permuted");
    }
    ret = tsk_table_collection_subset(&a, la, (tsk_size_t) na, 0);
    sym_assert(ret == 0, "subset A");
    ret = tsk_table_collection_subset(&b, lb, (tsk_size_t) nb, 0);
    sym_assert(ret == 0, "subset B");
    for (j = 0; j < nb; j++) {
        mapping[j] = inA[lb[j]] ? posa[lb[j]] : TSK_NULL;
    }
    ret = tsk_table_collection_union(&a, &b, mapping, 0);
    sym_assert(ret == 0, "union of the two parts succeeds (shared portion is equal)");
    if (ret == 0) {
        sym_assert(a.nodes.num_rows == NNODE && a.edges.num_rows == NEDGE && a.mutations.num_rows == NMUT, "nothing lost, nothing duplicated");
        ret = tsk_table_collection_copy(&t, &canon, 0);
        sym_assume(ret == 0);
        ret = tsk_table_collection_canonicalise(&canon, 0);
        sym_assert(ret == 0, "canonicalise original");
        ret = tsk_table_collection_canonicalise(&a, 0);
        sym_assert(ret == 0, "canonicalise union");
        /* node order differs (A's nodes first): compare through the canonical edge/site/mutation contents by counts
         * and by node-independent columns */
        sym_assert(a.sites.num_rows == canon.sites.num_rows && a.individuals.num_rows == canon.individuals.num_rows
                       && a.populations.num_rows == canon.populations.num_rows,
            "same number of sites, individuals and populations");
        for (j = 0; j < (int) a.sites.num_rows; j++) {
            sym_assert(a.sites.position[j] == canon.sites.position[j], "same sites");
        }
        /* individuals are identified by their metadata tag: same flags and the same parents (by tag) as in the original */
        for (j = 0; j < (int) a.individuals.num_rows; j++) {
            tsk_individual_t ri, ro;
            int q, k2, found = 0;
            tsk_individual_table_get_row(&a.individuals, j, &ri);
            for (k2 = 0; k2 < (int) canon.individuals.num_rows; k2++) {
                tsk_individual_table_get_row(&canon.individuals, k2, &ro);
                if (ro.metadata_length == 1 && ri.metadata_length == 1 && ro.metadata[0] == ri.metadata[0]) {
                    found = 1;
                    break;
                }
            }
            sym_assert(found, "every individual of the union is an individual of the original");
            if (found) {
                sym_assert(ri.flags == ro.flags && ri.parents_length == ro.parents_length, "individual flags and number of parents survive the round trip");
                for (q = 0; q < (int) ri.parents_length && q < (int) ro.parents_length; q++) {
                    tsk_id_t pi = ri.parents[q], po = ro.parents[q];
                    sym_assert((pi == TSK_NULL) == (po == TSK_NULL), "null parents stay null, others stay linked");
                    if (pi != TSK_NULL && po != TSK_NULL && pi < (tsk_id_t) a.individuals.num_rows && po < (tsk_id_t) canon.individuals.num_rows) {
                        sym_assert(a.individuals.metadata[a.individuals.metadata_offset[pi]] == canon.individuals.metadata[canon.individuals.metadata_offset[po]],
                            "individual parents point at the same individuals as in the original");
                    }
                }
            }
        }
        tsk_table_collection_free(&canon);
        sym_reach("rejoined");
    }
    tsk_table_collection_free(&a);
    tsk_table_collection_free(&b);
    tsk_table_collection_free(&t);
    SYM_END();
    return 0;
}
#endif
