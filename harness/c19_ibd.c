/* C19: ibd_segments returns, per requested pair, exactly the maximal intervals
 * over which the pair has the same MRCA reached through the same chains of
 * edges, filtered by min_span / max_time; totals equal the aggregates.
 * Oracle: per marginal tree (the real tree iterator, tied to the tables by
 * C01) the key (mrca, edge chain of a, edge chain of b); adjacent trees with
 * equal keys are merged. */
#include "treegen.h"

#ifdef ALL_SAMPLES
#undef NSEL
#define NSEL MAXN
#endif
#ifndef NSEL
#define NSEL 3 /* nodes in the within list */
#endif
#define MAXT (2 * NE + 2)
#define MAXSEG (MAXT + 1)

static h_tables_t T;

typedef struct {
    tsk_id_t mrca;
    tsk_id_t ca[MAXN], cb[MAXN]; /* edge chains, -1 terminated */
} ibdkey_t;

static void
pair_key(const tsk_tree_t *tree, tsk_id_t a, tsk_id_t b, ibdkey_t *k)
{
    tsk_id_t u, v;
    int i, j, na = 0, nb = 0;
    k->mrca = TSK_NULL;
    for (u = a, i = 0; u != TSK_NULL && i <= NN && k->mrca == TSK_NULL; u = tree->parent[u], i++) {
        for (v = b, j = 0; v != TSK_NULL && j <= NN; v = tree->parent[v], j++) {
            if (u == v) {
                k->mrca = u;
                break;
            }
        }
    }
    if (k->mrca == TSK_NULL) {
        return;
    }
    for (u = a; u != k->mrca; u = tree->parent[u]) {
        k->ca[na++] = tree->edge[u];
    }
    for (v = b; v != k->mrca; v = tree->parent[v]) {
        k->cb[nb++] = tree->edge[v];
    }
    k->ca[na] = -1;
    k->cb[nb] = -1;
}

static int
same_key(const ibdkey_t *x, const ibdkey_t *y)
{
    int i;
    if (x->mrca != y->mrca) {
        return 0;
    }
    if (x->mrca == TSK_NULL) {
        return 1;
    }
    for (i = 0; i < MAXN; i++) {
        if (x->ca[i] != y->ca[i]) {
            return 0;
        }
        if (x->ca[i] == -1) {
            break;
        }
    }
    for (i = 0; i < MAXN; i++) {
        if (x->cb[i] != y->cb[i]) {
            return 0;
        }
        if (x->cb[i] == -1) {
            break;
        }
    }
    return 1;
}

int
main_c19(void)
{
    tsk_table_collection_t t;
    tsk_treeseq_t ts;
    tsk_tree_t tree;
    tsk_identity_segments_t res;
    tsk_id_t sel[NSEL];
    tsk_size_t set_sizes[2];
    int ret, i, j, k, nsel, between, exp_pairs = 0, exp_nseg = 0, store;
    tsk_flags_t store_opt;
    double min_span, max_time, exp_total = 0;
    static const double max_times[4] = { 0.5, 1.5, 2.5, 1e300 };
    char nm[16];

    if (h_build_treeseq(&t, &ts, &T) != 0) {
        return 0;
    }
#ifdef ALL_SAMPLES
    /* within=None: the default set is every node flagged as a sample (whatever other flag bits it carries) */
    nsel = 0;
    for (i = 0; i < NN; i++) {
        if (T.flags[i] & TSK_NODE_IS_SAMPLE) {
            sel[nsel++] = i;
        }
    }
    if (nsel < 2) {
        sym_assume(0);
    }
#else
    nsel = NSEL;
    for (i = 0; i < nsel; i++) {
        sel[i] = sym_choice(sym_nm(nm, "s", i), 0, NN - 1);
        for (j = 0; j < i; j++) {
            if (sel[j] == sel[i]) {
                sym_assume(0);
            }
        }
    }
#endif
#ifdef FIXED_FILTERS
    between = 0;
    min_span = 0;
    max_time = max_times[3];
#else
    between = sym_choice("between", 0, 1);
    min_span = (double) sym_choice("min_span", 0, 2);
    max_time = max_times[sym_choice("max_time", 0, 3)];
#endif
#ifdef ALL_SAMPLES
    if (between) {
        sym_assume(0);
    }
#endif
    /* 0: pairs and segments stored; 1: pairs only (per-pair summaries, no lists); 2: nothing stored (totals only) */
#ifdef STORE_CHOICE
    store = sym_choice("store", 0, 2);
#else
    store = 0;
#endif
    store_opt = store == 0 ? (TSK_IBD_STORE_PAIRS | TSK_IBD_STORE_SEGMENTS) : store == 1 ? TSK_IBD_STORE_PAIRS : 0;
    if (between) {
        /* first node against the rest */
        set_sizes[0] = 1;
        set_sizes[1] = (tsk_size_t) nsel - 1;
        ret = tsk_table_collection_ibd_between(ts.tables, &res, 2, set_sizes, sel, min_span, max_time,
            store_opt);
    } else {
#ifdef ALL_SAMPLES
        ret = tsk_table_collection_ibd_within(ts.tables, &res, NULL, 0, min_span, max_time,
            store_opt);
#else
        ret = tsk_table_collection_ibd_within(ts.tables, &res, sel, (tsk_size_t) nsel, min_span, max_time,
            store_opt);
#endif
    }
    sym_assert(ret == 0, "ibd_segments succeeds");
    ret = tsk_tree_init(&tree, &ts, 0);
    sym_assume(ret == 0);
    for (i = 0; i < nsel; i++) {
        for (j = i + 1; j < nsel; j++) {
            tsk_id_t a = sel[i], b = sel[j];
            double seg_l[MAXSEG], seg_r[MAXSEG];
            tsk_id_t seg_n[MAXSEG];
            int nseg = 0, have = 0, found;
            ibdkey_t cur, prev;
            double run_l = 0;
            tsk_identity_segment_list_t *lst = NULL;
            tsk_identity_segment_t *s;
            if (between && i != 0) {
                continue; /* both in the second set */
            }
            prev.mrca = TSK_NULL;
            for (ret = tsk_tree_first(&tree); ret == TSK_TREE_OK; ret = tsk_tree_next(&tree)) {
                pair_key(&tree, a, b, &cur);
                if (have && !same_key(&cur, &prev)) {
                    if (prev.mrca != TSK_NULL) {
                        seg_l[nseg] = run_l;
                        seg_r[nseg] = tree.interval.left;
                        seg_n[nseg++] = prev.mrca;
                    }
                    run_l = tree.interval.left;
                }
                if (!have) {
                    run_l = tree.interval.left;
                    have = 1;
                }
                prev = cur;
            }
            if (have && prev.mrca != TSK_NULL) {
                seg_l[nseg] = run_l;
                seg_r[nseg] = SEQ_L;
                seg_n[nseg++] = prev.mrca;
            }
            /* filters */
            k = 0;
            for (found = 0; found < nseg; found++) {
                if (seg_r[found] - seg_l[found] > min_span && T.time[seg_n[found]] < max_time) {
                    seg_l[k] = seg_l[found];
                    seg_r[k] = seg_r[found];
                    seg_n[k++] = seg_n[found];
                }
            }
            nseg = k;
            ret = tsk_identity_segments_get(&res, a, b, &lst);
            if (store == 2) {
                sym_assert(ret < 0, "pair lookup is refused when pairs are not stored");
                for (k = 0; k < nseg; k++) {
                    exp_total += seg_r[k] - seg_l[k];
                }
                exp_nseg += nseg;
                continue;
            }
            sym_assert(ret == 0, "pair lookup succeeds");
            if (nseg == 0) {
                sym_assert(lst == NULL, "a pair without qualifying segments is not stored");
            } else {
                double tot = 0;
                exp_pairs++;
                sym_assert(lst != NULL && lst->num_segments == (tsk_size_t) nseg, "number of segments of the pair");
                if (lst != NULL) {
                    int cnt = 0;
                    if (store == 1) {
                        sym_assert(lst->head == NULL, "no segment list when segments are not stored");
                    }
                    for (s = lst->head; store == 0 && s != NULL && cnt <= MAXSEG; s = s->next, cnt++) {
                        found = 0;
                        for (k = 0; k < nseg; k++) {
                            found |= s->left == seg_l[k] && s->right == seg_r[k] && s->node == seg_n[k];
                        }
                        sym_assert(found, "every stored segment is a maximal same-path interval labelled with its MRCA");
                    }
                    sym_assert(store == 1 || cnt == nseg, "segment list length");
                    for (k = 0; k < nseg; k++) {
                        tot += seg_r[k] - seg_l[k];
                    }
                    sym_assert(lst->total_span == tot, "per-pair total span");
                    exp_total += tot;
                    exp_nseg += nseg;
                }
            }
        }
    }
    sym_assert(store == 2 || tsk_identity_segments_get_num_pairs(&res) == (tsk_size_t) exp_pairs, "num_pairs");
    sym_assert(tsk_identity_segments_get_num_segments(&res) == (tsk_size_t) exp_nseg, "num_segments");
    sym_assert(tsk_identity_segments_get_total_span(&res) == exp_total, "total_span");
    if (exp_nseg > 0) {
        sym_reach("has-segments");
    }
    tsk_tree_free(&tree);
    tsk_identity_segments_free(&res);
    tsk_treeseq_free(&ts);
    tsk_table_collection_free(&t);
    SYM_END();
    return 0;
}
