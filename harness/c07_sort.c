/* C07: sort() permutes edge / site / mutation / migration rows (with their
 * metadata) into the documented key orders, remaps mutation.site and
 * mutation.parent, leaves the other tables alone, honours edge_start, is
 * idempotent; compute_mutation_parents assigns the nearest mutation above.
 * Every row carries a distinct 1-byte metadata tag so that rows can be
 * identified after the permutation.  MODE selects the table under test. */
#include "treegen.h"

#ifndef MODE
#define MODE 1
#endif
#ifndef NR
#define NR 3 /* rows in the table under test */
#endif
#ifndef NSITES
#define NSITES 2
#endif

static void
base_nodes(tsk_table_collection_t *t)
{
    int ret = tsk_table_collection_init(t, 0);
    sym_assume(ret == 0);
    t->sequence_length = 10;
    tsk_population_table_add_row(&t->populations, "P", 1);
    tsk_population_table_add_row(&t->populations, "Q", 1);
    tsk_individual_table_add_row(&t->individuals, 0, NULL, 0, NULL, 0, "I", 1);
    tsk_node_table_add_row(&t->nodes, 1, 0, 0, 0, "a", 1);
    tsk_node_table_add_row(&t->nodes, 1, 0, 1, -1, "b", 1);
    tsk_node_table_add_row(&t->nodes, 0, 1, -1, -1, "c", 1);
    tsk_node_table_add_row(&t->nodes, 0, 1, -1, -1, "d", 1); /* same time as node 2: parent-id tie-break */
    tsk_node_table_add_row(&t->nodes, 0, 2, -1, -1, "e", 1);
}

static void
others_unchanged(const tsk_table_collection_t *a, const tsk_table_collection_t *b)
{
    sym_assert(tsk_node_table_equals(&a->nodes, &b->nodes, 0), "sort never touches nodes");
    sym_assert(tsk_individual_table_equals(&a->individuals, &b->individuals, 0), "sort never touches individuals");
    sym_assert(tsk_population_table_equals(&a->populations, &b->populations, 0), "sort never touches populations");
}

#if MODE == 1
int
main_c07(void)
{
    tsk_table_collection_t t, orig, again;
    double left[NR], time[5] = { 0, 0, 1, 1, 2 };
    tsk_id_t parent[NR], child[NR];
    int j, k, ret, start;
    char nm[16], tag;
    tsk_bookmark_t bm;

    base_nodes(&t);
    for (j = 0; j < NR; j++) {
        parent[j] = sym_choice(sym_nm(nm, "p", j), 2, 4);
        child[j] = sym_choice(sym_nm(nm, "c", j), 0, 1);
        left[j] = sym_f64_int(sym_nm(nm, "l", j));
        sym_assume(0 <= left[j] && left[j] < 9);
        tag = (char) ('A' + j);
        ret = tsk_edge_table_add_row(&t.edges, left[j], left[j] + 1, parent[j], child[j], &tag, 1);
        sym_assume(ret == j);
    }
    ret = tsk_table_collection_copy(&t, &orig, 0);
    sym_assume(ret == 0);
    start = sym_choice("edge_start", 0, NR);
    memset(&bm, 0, sizeof(bm));
    bm.edges = (tsk_size_t) start;
    ret = tsk_table_collection_sort(&t, &bm, 0);
    sym_assert(ret == 0, "sort succeeds on referentially intact tables");
    sym_assert(t.edges.num_rows == NR, "row count preserved");
    others_unchanged(&t, &orig);
    for (j = 0; j < NR; j++) {
        /* identify the source row by its tag; all of its fields must be carried along */
        sym_assert(t.edges.metadata_offset[j + 1] - t.edges.metadata_offset[j] == 1, "edge metadata length preserved");
        k = t.edges.metadata[t.edges.metadata_offset[j]] - 'A';
        sym_assert(k >= 0 && k < NR, "edge metadata is one of the input tags");
        sym_assert(t.edges.left[j] == left[k] && t.edges.right[j] == left[k] + 1 && t.edges.parent[j] == parent[k]
                       && t.edges.child[j] == child[k],
            "edge row fields travel with their metadata");
        if (j < start) {
            sym_assert(k == j, "rows before edge_start are not affected");
        }
    }
    for (j = 0; j < NR; j++) {
        for (k = j + 1; k < NR; k++) {
            sym_assert(t.edges.metadata[t.edges.metadata_offset[j]] != t.edges.metadata[t.edges.metadata_offset[k]], "output rows are a permutation (no tag twice)");
        }
    }
    for (j = start + 1; j < NR; j++) {
        tsk_id_t p0 = t.edges.parent[j - 1], p1 = t.edges.parent[j];
        int ord;
        /* time of parent, then parent id, then child id, then left */
        if (time[p0] != time[p1]) {
            ord = time[p0] < time[p1];
        } else if (p0 != p1) {
            ord = p0 < p1;
        } else if (t.edges.child[j - 1] != t.edges.child[j]) {
            ord = t.edges.child[j - 1] < t.edges.child[j];
        } else {
            ord = t.edges.left[j - 1] <= t.edges.left[j];
        }
        sym_assert(ord, "edges sorted by (time[parent], parent, child, left)");
    }
    ret = tsk_table_collection_copy(&t, &again, 0);
    sym_assume(ret == 0);
    ret = tsk_table_collection_sort(&again, NULL, 0);
    if (start == 0) {
        sym_assert(ret == 0 && tsk_table_collection_equals(&t, &again, 0), "sort is idempotent");
    }
    tsk_table_collection_free(&again);
    tsk_table_collection_free(&orig);
    tsk_table_collection_free(&t);
    SYM_END();
    return 0;
}
#endif

#if MODE == 2
int
main_c07(void)
{
    tsk_table_collection_t t, orig, again;
    double pos[NSITES], mtime[NR];
    tsk_id_t msite[NR], mparent[NR], newsite[NSITES], newmut[NR];
    int j, k, ret, unknown;
    char nm[16], tag, ds[1];

    base_nodes(&t);
    for (j = 0; j < NSITES; j++) {
        pos[j] = sym_f64_int(sym_nm(nm, "x", j));
        sym_assume(0 <= pos[j] && pos[j] < 10);
        tag = (char) ('A' + j);
        ds[0] = (char) ('a' + j);
        ret = tsk_site_table_add_row(&t.sites, pos[j], ds, 1, &tag, 1);
        sym_assume(ret == j);
    }
    unknown = sym_choice("unknown", 0, 1);
    for (j = 0; j < NR; j++) {
        msite[j] = sym_choice(sym_nm(nm, "ms", j), 0, NSITES - 1);
        /* parents: referentially intact = an earlier row at the same site, or null */
        mparent[j] = j == 0 ? -1 : sym_choice(sym_nm(nm, "mp", j), -1, j - 1);
        if (mparent[j] != -1 && msite[mparent[j]] != msite[j]) {
            sym_assume(0);
        }
        if (unknown) {
            mtime[j] = TSK_UNKNOWN_TIME;
        } else {
            mtime[j] = sym_f64_int(sym_nm(nm, "mt", j));
            sym_assume(0 <= mtime[j] && mtime[j] < 5);
            if (mparent[j] != -1) {
                sym_assume(mtime[j] <= mtime[mparent[j]]);
            }
        }
        tag = (char) ('K' + j);
        ds[0] = (char) ('k' + j);
        ret = tsk_mutation_table_add_row(&t.mutations, msite[j], 0, mparent[j], mtime[j], ds, 1, &tag, 1);
        sym_assume(ret == j);
    }
    ret = tsk_table_collection_copy(&t, &orig, 0);
    sym_assume(ret == 0);
    ret = tsk_table_collection_sort(&t, NULL, 0);
    sym_assert(ret == 0, "sort succeeds on referentially intact tables");
    sym_assert(t.sites.num_rows == NSITES && t.mutations.num_rows == NR, "row counts preserved");
    others_unchanged(&t, &orig);
    for (j = 0; j < NSITES; j++) {
        newsite[j] = -1;
    }
    for (j = 0; j < NSITES; j++) {
        k = t.sites.metadata[t.sites.metadata_offset[j]] - 'A';
        sym_assert(k >= 0 && k < NSITES && newsite[k] == -1, "site rows are a permutation of the input rows");
        newsite[k] = j;
        sym_assert(t.sites.position[j] == pos[k] && t.sites.ancestral_state[t.sites.ancestral_state_offset[j]] == 'a' + k, "site fields travel with their metadata");
        if (j > 0) {
            int kprev = t.sites.metadata[t.sites.metadata_offset[j - 1]] - 'A';
            sym_assert(t.sites.position[j - 1] < t.sites.position[j] || (t.sites.position[j - 1] == t.sites.position[j] && kprev < k),
                "sites sorted by position, equal positions keep their relative order");
        }
    }
    for (j = 0; j < NR; j++) {
        newmut[j] = -1;
    }
    for (j = 0; j < NR; j++) {
        k = t.mutations.metadata[t.mutations.metadata_offset[j]] - 'K';
        sym_assert(k >= 0 && k < NR && newmut[k] == -1, "mutation rows are a permutation of the input rows");
        newmut[k] = j;
    }
    for (j = 0; j < NR; j++) {
        k = t.mutations.metadata[t.mutations.metadata_offset[j]] - 'K';
        sym_assert(t.mutations.site[j] == newsite[msite[k]], "mutation.site is remapped to the site's new id");
        sym_assert(t.mutations.parent[j] == (mparent[k] == -1 ? -1 : newmut[mparent[k]]), "mutation.parent is remapped to the parent's new id");
        sym_assert(t.mutations.derived_state[t.mutations.derived_state_offset[j]] == 'k' + k && t.mutations.node[j] == 0,
            "mutation fields travel with their metadata");
        sym_assert(unknown ? tsk_is_unknown_time(t.mutations.time[j]) : t.mutations.time[j] == mtime[k], "mutation time travels with its row");
        if (j > 0) {
            int kp = t.mutations.metadata[t.mutations.metadata_offset[j - 1]] - 'K';
            int ord;
            if (t.mutations.site[j - 1] != t.mutations.site[j]) {
                ord = t.mutations.site[j - 1] < t.mutations.site[j];
            } else if (!unknown && mtime[kp] != mtime[k]) {
                ord = mtime[kp] > mtime[k];
            } else {
                ord = kp < k;
            }
            sym_assert(ord, "mutations sorted by site, then decreasing known time, ties keep their relative order");
        }
    }
    ret = tsk_table_collection_copy(&t, &again, 0);
    sym_assume(ret == 0);
    ret = tsk_table_collection_sort(&again, NULL, 0);
    sym_assert(ret == 0 && tsk_table_collection_equals(&t, &again, 0), "sort is idempotent");
    /* skipping sites and mutations entirely */
    {
        tsk_bookmark_t bm;
        memset(&bm, 0, sizeof(bm));
        bm.sites = NSITES;
        bm.mutations = NR;
        ret = tsk_table_collection_sort(&orig, &bm, 0);
        sym_assert(ret == 0, "site_start/mutation_start == num rows is accepted");
        for (j = 0; j < NR; j++) {
            sym_assert(orig.mutations.site[j] == msite[j] && orig.mutations.metadata[orig.mutations.metadata_offset[j]] == 'K' + j, "skipped tables are untouched");
        }
    }
    tsk_table_collection_free(&again);
    tsk_table_collection_free(&orig);
    tsk_table_collection_free(&t);
    SYM_END();
    return 0;
}
#endif

#if MODE == 3
int
main_c07(void)
{
    tsk_table_collection_t t, again;
    double left[NR], time[NR];
    tsk_id_t src[NR], dst[NR], node[NR];
    int j, k, ret;
    char nm[16], tag;

    base_nodes(&t);
    for (j = 0; j < NR; j++) {
        time[j] = sym_f64_int(sym_nm(nm, "t", j));
        left[j] = sym_f64_int(sym_nm(nm, "l", j));
        sym_assume(0 <= left[j] && left[j] < 9 && 0 <= time[j] && time[j] < 3);
        src[j] = sym_choice(sym_nm(nm, "s", j), 0, 1);
        dst[j] = sym_choice(sym_nm(nm, "d", j), 0, 1);
        node[j] = sym_choice(sym_nm(nm, "n", j), 0, 1);
        tag = (char) ('A' + j);
        ret = tsk_migration_table_add_row(&t.migrations, left[j], left[j] + 1, node[j], src[j], dst[j], time[j], &tag, 1);
        sym_assume(ret == j);
    }
    ret = tsk_table_collection_sort(&t, NULL, 0);
    sym_assert(ret == 0, "sort succeeds");
    for (j = 0; j < NR; j++) {
        k = t.migrations.metadata[t.migrations.metadata_offset[j]] - 'A';
        sym_assert(k >= 0 && k < NR, "migration metadata is one of the input tags");
        sym_assert(t.migrations.left[j] == left[k] && t.migrations.time[j] == time[k] && t.migrations.source[j] == src[k]
                       && t.migrations.dest[j] == dst[k] && t.migrations.node[j] == node[k] && t.migrations.right[j] == left[k] + 1,
            "migration fields travel with their metadata");
        for (k = j + 1; k < NR; k++) {
            sym_assert(t.migrations.metadata[t.migrations.metadata_offset[j]] != t.migrations.metadata[t.migrations.metadata_offset[k]], "permutation");
        }
        if (j > 0) {
            int ord;
            if (t.migrations.time[j - 1] != t.migrations.time[j]) {
                ord = t.migrations.time[j - 1] < t.migrations.time[j];
            } else if (t.migrations.source[j - 1] != t.migrations.source[j]) {
                ord = t.migrations.source[j - 1] < t.migrations.source[j];
            } else if (t.migrations.dest[j - 1] != t.migrations.dest[j]) {
                ord = t.migrations.dest[j - 1] < t.migrations.dest[j];
            } else if (t.migrations.left[j - 1] != t.migrations.left[j]) {
                ord = t.migrations.left[j - 1] < t.migrations.left[j];
            } else {
                ord = t.migrations.node[j - 1] <= t.migrations.node[j];
            }
            sym_assert(ord, "migrations sorted by (time, source, dest, left, node)");
        }
    }
    ret = tsk_table_collection_copy(&t, &again, 0);
    sym_assume(ret == 0);
    ret = tsk_table_collection_sort(&again, NULL, 0);
    sym_assert(ret == 0 && tsk_table_collection_equals(&t, &again, 0), "sort is idempotent");
    tsk_table_collection_free(&again);
    tsk_table_collection_free(&t);
    SYM_END();
    return 0;
}
#endif

#if MODE == 4
/* compute_mutation_parents == nearest mutation above at the site, on every valid tree sequence class */
static h_tables_t T;
int
main_c07(void)
{
    tsk_table_collection_t t;
    tsk_treeseq_t ts;
    tsk_id_t msite[NR], mnode[NR], expect[NR];
    int j, k, ret, bad = 0;
    char nm[16];

    if (h_build_treeseq(&t, &ts, &T) != 0) {
        return 0;
    }
    for (j = 0; j < NR; j++) {
        msite[j] = sym_choice(sym_nm(nm, "ms", j), j == 0 ? 0 : msite[j - 1], NS - 1); /* sorted by site */
        mnode[j] = sym_choice(sym_nm(nm, "mn", j), 0, NN - 1);
        ret = tsk_mutation_table_add_row(&t.mutations, msite[j], mnode[j], sym_i32(sym_nm(nm, "mp", j)) /* stale, arbitrary */,
            TSK_UNKNOWN_TIME, "T", 1, NULL, 0);
        sym_assume(ret == j);
    }
    /* oracle: walk from the node towards the root at the site's position; on a node the latest earlier row wins */
    for (j = 0; j < NR; j++) {
        tsk_id_t u = mnode[j], found = -1;
        double x = site_pos[msite[j]];
        int steps;
        for (k = j - 1; k >= 0 && found == -1; k--) {
            if (msite[k] == msite[j] && mnode[k] == u) {
                found = k;
            }
        }
        u = h_parent_at(&T, u, x, NULL);
        for (steps = 0; steps <= NN && u != TSK_NULL && found == -1; steps++) {
            for (k = NR - 1; k >= 0 && found == -1; k--) {
                if (msite[k] == msite[j] && mnode[k] == u) {
                    found = k;
                }
            }
            u = h_parent_at(&T, u, x, NULL);
        }
        expect[j] = found;
        bad |= found > j;
    }
    ret = tsk_table_collection_compute_mutation_parents(&t, 0);
    if (bad) {
        sym_reach("parent-after-child");
        sym_assert(ret == TSK_ERR_MUTATION_PARENT_AFTER_CHILD, "a parent listed after its child is reported");
    } else {
        sym_assert(ret == 0, "compute_mutation_parents succeeds");
        for (j = 0; j < NR; j++) {
            sym_assert(t.mutations.parent[j] == expect[j], "mutation parent is the nearest mutation above at the site");
        }
        {
            tsk_treeseq_t ts2;
            ret = tsk_treeseq_init(&ts2, &t, 0);
            sym_assert(ret == 0, "the repaired collection loads as a tree sequence");
            tsk_treeseq_free(&ts2);
        }
    }
    tsk_treeseq_free(&ts);
    tsk_table_collection_free(&t);
    SYM_END();
    return 0;
}
#endif

#if MODE == 5
/* canonicalise() yields identical tables from collections that differ only by the row order of the non-node tables */
static void
build_perm(tsk_table_collection_t *t, const int *mperm, int dfirst, int eswap, int iswap, int pswap, int sswap, double p0, double p1)
{
    /* logical rows: A on the root, B below it, C on the leaf, all at logical site 0; D alone at logical site 1 */
    static const tsk_id_t m_node[3] = { 3, 2, 0 };
    static const tsk_id_t m_parent[3] = { -1, 0, 1 }; /* logical parent: B->A, C->B */
    tsk_id_t pos_of[3], j;
    int ret;
    char tag;
    ret = tsk_table_collection_init(t, 0);
    sym_assume(ret == 0);
    t->sequence_length = 10;
    /* populations / individuals / sites in either order; references follow */
    for (j = 0; j < 2; j++) {
        tag = (char) ('P' + (pswap ? 1 - j : j));
        tsk_population_table_add_row(&t->populations, &tag, 1);
        tag = (char) ('I' + (iswap ? 1 - j : j));
        {
            /* pedigree: logical individual I (of node a) is the child of logical individual J (of node b); with the
             * rows in logical order the child precedes its parent, so canonicalise has to reorder the individuals */
            int logical = iswap ? 1 - j : j;
            tsk_id_t par[1];
            par[0] = iswap ? 0 : 1; /* row of logical J */
            tsk_individual_table_add_row(&t->individuals, 0, NULL, 0, par, logical == 0 ? 1 : 0, &tag, 1);
        }
        tag = (char) ('S' + (sswap ? 1 - j : j));
        tsk_site_table_add_row(&t->sites, (sswap ? 1 - j : j) == 0 ? p0 : p1, "A", 1, &tag, 1);
    }
    tsk_node_table_add_row(&t->nodes, 1, 0, pswap ? 1 : 0, iswap ? 1 : 0, "a", 1); /* logical pop P, ind I */
    tsk_node_table_add_row(&t->nodes, 1, 0, pswap ? 0 : 1, iswap ? 0 : 1, "b", 1); /* logical pop Q, ind J */
    tsk_node_table_add_row(&t->nodes, 0, 1, -1, -1, "c", 1);
    tsk_node_table_add_row(&t->nodes, 0, 2, -1, -1, "d", 1);
    if (eswap) {
        tsk_edge_table_add_row(&t->edges, 0, 10, 3, 2, NULL, 0);
        tsk_edge_table_add_row(&t->edges, 0, 10, 2, 0, NULL, 0);
    } else {
        tsk_edge_table_add_row(&t->edges, 0, 10, 2, 0, NULL, 0);
        tsk_edge_table_add_row(&t->edges, 0, 10, 3, 2, NULL, 0);
    }
    if (dfirst) {
        tsk_mutation_table_add_row(&t->mutations, sswap ? 0 : 1, 1, -1, TSK_UNKNOWN_TIME, "G", 1, "N", 1);
    }
    for (j = 0; j < 3; j++) {
        pos_of[mperm[j]] = j + (dfirst ? 1 : 0); /* logical row mperm[j] is stored at this position */
    }
    for (j = 0; j < 3; j++) {
        int lg = mperm[j];
        tag = (char) ('K' + lg);
        tsk_mutation_table_add_row(&t->mutations, sswap ? 1 : 0, m_node[lg], m_parent[lg] == -1 ? -1 : pos_of[m_parent[lg]],
            TSK_UNKNOWN_TIME, "T", 1, &tag, 1);
    }
    if (!dfirst) {
        tsk_mutation_table_add_row(&t->mutations, sswap ? 0 : 1, 1, -1, TSK_UNKNOWN_TIME, "G", 1, "N", 1);
    }
}

int
main_c07(void)
{
    static const int perms[6][3] = { { 0, 1, 2 }, { 0, 2, 1 }, { 1, 0, 2 }, { 1, 2, 0 }, { 2, 0, 1 }, { 2, 1, 0 } };
    tsk_table_collection_t ref, t;
    tsk_treeseq_t ts;
    int ret, j, k, p = sym_choice("mperm", 0, 5), dfirst = sym_choice("dfirst", 0, 1);
    int eswap = sym_choice("eswap", 0, 1), iswap = sym_choice("iswap", 0, 1), pswap = sym_choice("pswap", 0, 1);
    int sswap = sym_choice("sswap", 0, 1);
    double p0 = sym_f64_int("p0"), p1 = sym_f64_int("p1");

    sym_assume(p0 >= 0 && p0 < 10 && p1 >= 0 && p1 < 10 && p0 != p1);
    build_perm(&ref, perms[0], 0, 0, 0, 0, 0, p0, p1);
    build_perm(&t, perms[p], dfirst, eswap, iswap, pswap, sswap, p0, p1);
    ret = tsk_table_collection_canonicalise(&ref, 0);
    sym_assert(ret == 0, "canonicalise (reference order)");
    ret = tsk_table_collection_canonicalise(&t, 0);
    sym_assert(ret == 0, "canonicalise (permuted rows)");
    sym_assert(tsk_table_collection_equals(&ref, &t, 0), "canonicalise gives identical tables whatever the row order of the non-node tables");
    /* and the canonical form is loadable: sites by position, parents before children */
    sym_assert(t.sites.position[0] < t.sites.position[1], "canonical sites are in position order");
    for (j = 0; j < 4; j++) {
        k = t.mutations.parent[j];
        sym_assert(k < j, "canonical mutation order lists parents before children");
    }
    sym_assert(tsk_table_collection_check_integrity(&t, TSK_CHECK_INDIVIDUAL_ORDERING) == 0,
        "canonical individuals list parents before children");
    sym_assert(t.individuals.num_rows == 2 && t.individuals.parents_length == 1, "the pedigree link survives");
    ret = tsk_treeseq_init(&ts, &t, TSK_TS_INIT_BUILD_INDEXES);
    sym_assert(ret == 0, "the canonical tables load as a tree sequence");
    tsk_treeseq_free(&ts);
    tsk_table_collection_free(&t);
    tsk_table_collection_free(&ref);
    SYM_END();
    return 0;
}
#endif

#if MODE == 6
/* deduplicate_sites: sites at one position collapse onto the first of them, mutations follow; needs sorted sites */
#ifndef NSITES
#define NSITES 3
#endif
int
main_c07(void)
{
    tsk_table_collection_t t;
    double pos[NSITES];
    tsk_id_t msite[NR], group[NSITES];
    int ret, j, sorted = 1, ngroups = 0;
    char nm[16], tag;

    ret = tsk_table_collection_init(&t, 0);
    sym_assume(ret == 0);
    t.sequence_length = 200;
    tsk_node_table_add_row(&t.nodes, 1, 0, -1, -1, NULL, 0);
    for (j = 0; j < NSITES; j++) {
        pos[j] = sym_f64_int(sym_nm(nm, "x", j));
        sym_assume(0 <= pos[j] && pos[j] < 100);
        tag = (char) ('s' + j);
        tsk_site_table_add_row(&t.sites, pos[j], &tag, 1, &tag, 1); /* ancestral state and metadata identify the row */
        if (j > 0 && pos[j - 1] > pos[j]) {
            sorted = 0;
        }
    }
    for (j = 0; j < NR; j++) {
        msite[j] = sym_choice(sym_nm(nm, "ms", j), 0, NSITES - 1);
        tag = (char) ('m' + j);
        tsk_mutation_table_add_row(&t.mutations, msite[j], 0, -1, TSK_UNKNOWN_TIME, "T", 1, &tag, 1);
    }
    ret = tsk_table_collection_deduplicate_sites(&t, 0);
    if (!sorted) {
        sym_assert(ret < 0, "unsorted sites are rejected");
        sym_assert(t.sites.num_rows == NSITES, "and the site table is left alone");
        sym_reach("unsorted");
    } else {
        sym_assert(ret == 0, "deduplicate_sites succeeds on sorted sites");
        for (j = 0; j < NSITES; j++) {
            if (j == 0 || pos[j] != pos[j - 1]) {
                ngroups++;
            }
            group[j] = ngroups - 1;
        }
        sym_assert(t.sites.num_rows == (tsk_size_t) ngroups, "one site per distinct position");
        for (j = 0; j < NSITES; j++) {
            if (j == 0 || group[j] != group[j - 1]) {
                tsk_site_t row;
                tsk_site_table_get_row(&t.sites, group[j], &row);
                sym_assert(row.position == pos[j] && row.ancestral_state_length == 1 && row.ancestral_state[0] == 's' + j
                               && row.metadata_length == 1 && row.metadata[0] == 's' + j,
                    "the first site of each position survives with its own data");
            }
        }
        sym_assert(t.mutations.num_rows == NR, "no mutation is lost");
        for (j = 0; j < NR; j++) {
            sym_assert(t.mutations.site[j] == group[msite[j]] && t.mutations.metadata[t.mutations.metadata_offset[j]] == 'm' + j,
                "mutations follow their site to the surviving row, in the same order");
        }
        if (ngroups < NSITES) {
            sym_reach("merged");
        }
    }
    tsk_table_collection_free(&t);
    SYM_END();
    return 0;
}
#endif

#if MODE == 7
/* EdgeTable.squash: abutting edges of one parent/child pair are merged; coverage per pair is unchanged */
int
main_c07(void)
{
    tsk_edge_table_t e;
    double left[NR], right[NR];
    tsk_id_t child[NR];
    int ret, j, x;
    tsk_size_t k;
    char nm[16];

    ret = tsk_edge_table_init(&e, 0);
    sym_assume(ret == 0);
    for (j = 0; j < NR; j++) {
        left[j] = sym_f64_int(sym_nm(nm, "l", j));
        right[j] = sym_f64_int(sym_nm(nm, "r", j));
        sym_assume(0 <= left[j] && left[j] < right[j] && right[j] <= 6);
        child[j] = sym_choice(sym_nm(nm, "c", j), 0, 1);
        tsk_edge_table_add_row(&e, left[j], right[j], 2, child[j], NULL, 0);
    }
    /* valid input: the intervals of one child are disjoint */
    for (j = 0; j < NR; j++) {
        for (x = 0; x < j; x++) {
            if (child[j] == child[x] && left[j] < right[x] && left[x] < right[j]) {
                sym_assume(0);
            }
        }
    }
    ret = tsk_edge_table_squash(&e);
    sym_assert(ret == 0, "squash succeeds");
    /* coverage: at every integer position each child is covered exactly when an input edge covers it */
    for (x = 0; x < 6; x++) {
        int c;
        for (c = 0; c < 2; c++) {
            int in = 0, out = 0;
            for (j = 0; j < NR; j++) {
                in += child[j] == c && left[j] <= x && x < right[j];
            }
            for (k = 0; k < e.num_rows; k++) {
                out += e.child[k] == c && e.left[k] <= x && x < e.right[k];
                sym_assert(e.parent[k] == 2, "parent unchanged");
            }
            sym_assert(in == out, "every position is covered by exactly the same parent/child pairs as before");
        }
    }
    for (k = 0; k < e.num_rows; k++) {
        tsk_size_t q;
        for (q = 0; q < e.num_rows; q++) {
            sym_assert(!(q != k && e.child[q] == e.child[k] && e.right[q] == e.left[k]), "no two output edges of one pair abut");
        }
    }
    if (e.num_rows < NR) {
        sym_reach("squashed");
    }
    tsk_edge_table_free(&e);
    SYM_END();
    return 0;
}
#endif
