/* C01: the marginal trees reported by the real tree iterator are exactly what the
 * node and edge rows say, and every derived view is consistent with that
 * parent map.  Tables: treegen.h (ids by choice, coordinates symbolic). */
#include "treegen.h"

#ifndef PASSES
#define PASSES 7 /* bit k: run option pass k */
#endif
static h_tables_t T;

static void
check_tree(const tsk_tree_t *tree, const tsk_treeseq_t *ts, int opt, int root_threshold,
    const int *tracked, int full)
{
    h_otree_t O;
    int u, v, j, k, cnt, nedges = 0;
    double x = tree->interval.left;
    const tsk_id_t vroot = tree->virtual_root;

    h_oracle_tree(&T, x, &O);
    for (j = 0; j < T.ne; j++) {
        sym_assert(!(x < T.left[j] && T.left[j] < tree->interval.right), "no edge start strictly inside a tree interval");
        sym_assert(!(x < T.right[j] && T.right[j] < tree->interval.right), "no edge end strictly inside a tree interval");
    }
    if (x != 0) {
        cnt = 0;
        for (j = 0; j < T.ne; j++) {
            cnt += (T.left[j] == x) || (T.right[j] == x);
        }
        sym_assert(cnt > 0, "every internal tree boundary is an edge end-point");
    }
    for (u = 0; u < NN; u++) {
        sym_assert(tree->parent[u] == O.parent[u], "parent(u)=p iff an edge (l,r,p,u) covers the position");
        sym_assert(tree->edge[u] == O.edge[u], "edge[u] is the edge that justifies parent[u]");
        nedges += O.parent[u] != TSK_NULL;
    }
    sym_assert(tree->num_edges == (tsk_size_t) nedges, "num_edges counts the edges in the tree");
    if (!full) {
        return;
    }
    /* children / sibling arrays enumerate exactly {c : parent[c]==u}, once each */
    for (u = 0; u < NN; u++) {
        cnt = 0;
        for (v = tree->left_child[u], k = 0; v != TSK_NULL && k <= NN; v = tree->right_sib[v], k++) {
            sym_assert(O.parent[v] == u, "left_child/right_sib chain lists only children");
            cnt++;
        }
        sym_assert(cnt == O.nchild[u], "left_child/right_sib chain lists every child once");
        sym_assert(tree->num_children[u] == O.nchild[u], "num_children");
        cnt = 0;
        for (v = tree->right_child[u], k = 0; v != TSK_NULL && k <= NN; v = tree->left_sib[v], k++) {
            sym_assert(O.parent[v] == u, "right_child/left_sib chain lists only children");
            cnt++;
        }
        sym_assert(cnt == O.nchild[u], "right_child/left_sib chain lists every child once");
        if (O.nchild[u] == 0) {
            sym_assert(tree->left_child[u] == TSK_NULL && tree->right_child[u] == TSK_NULL, "leaf has no children");
        }
    }
    /* sample counts, tracked counts, roots */
    if (!(opt & TSK_NO_SAMPLE_COUNTS)) {
        int nroots = 0, listed = 0;
        for (u = 0; u < NN; u++) {
            int ntr = 0;
            sym_assert(tree->num_samples[u] == (tsk_size_t) O.nsamp[u], "num_samples is the number of sample descendants");
            for (v = 0; v < NN; v++) {
                if (tracked[v] && h_o_is_anc(&O, NN, u, v)) {
                    ntr++;
                }
            }
            sym_assert(tree->num_tracked_samples[u] == (tsk_size_t) ntr, "num_tracked_samples counts tracked descendants");
            if (O.parent[u] == TSK_NULL && O.nsamp[u] >= root_threshold) {
                nroots++;
            }
        }
        for (v = tree->left_child[vroot], k = 0; v != TSK_NULL && k <= NN; v = tree->right_sib[v], k++) {
            sym_assert(O.parent[v] == TSK_NULL && O.nsamp[v] >= root_threshold, "virtual root lists only roots");
            sym_assert(tree->parent[v] == TSK_NULL, "roots have null parent");
            listed++;
        }
        sym_assert(listed == nroots, "virtual root lists every root under the threshold once");
        sym_assert(tsk_tree_get_num_roots(tree) == (tsk_size_t) nroots, "get_num_roots");
        sym_assert(tree->num_children[vroot] == nroots, "num_children of the virtual root");
    }
    if (opt & TSK_SAMPLE_LISTS) {
        const tsk_id_t *samples = tsk_treeseq_get_samples(ts);
        for (u = 0; u < NN; u++) {
            tsk_id_t idx = tree->left_sample[u];
            cnt = 0;
            if (O.nsamp[u] == 0) {
                sym_assert(idx == TSK_NULL && tree->right_sample[u] == TSK_NULL, "no sample list below a node without samples");
                continue;
            }
            for (k = 0; k <= NN && idx != TSK_NULL; k++) {
                sym_assert(h_o_is_anc(&O, NN, u, samples[idx]), "sample list holds only sample descendants");
                cnt++;
                if (idx == tree->right_sample[u]) {
                    break;
                }
                idx = tree->next_sample[idx];
            }
            sym_assert(cnt == O.nsamp[u], "sample list holds every sample descendant once");
        }
    }
    /* traversals and queries */
    if (!(opt & TSK_NO_SAMPLE_COUNTS)) {
        tsk_id_t order[MAXN + 2], m;
        tsk_size_t n;
        int pos[MAXN + 1], depth, od, reach = 0;
        double tbl, otbl = 0;
        int ret = tsk_tree_preorder(tree, order, &n);
        sym_assert(ret == 0, "preorder ok");
        for (u = 0; u < NN; u++) {
            pos[u] = -1;
        }
        for (j = 0; j < (int) n; j++) {
            sym_assert(order[j] >= 0 && order[j] < NN && pos[order[j]] == -1, "preorder lists nodes once");
            pos[order[j]] = j;
        }
        for (u = 0; u < NN; u++) {
            /* reachable from a root */
            v = u;
            for (k = 0; k <= NN && O.parent[v] != TSK_NULL; k++) {
                v = O.parent[v];
            }
            k = O.nsamp[v] >= root_threshold;
            reach += k;
            sym_assert((pos[u] >= 0) == (k != 0), "preorder covers exactly the nodes under the roots");
            if (pos[u] >= 0 && O.parent[u] != TSK_NULL) {
                sym_assert(pos[O.parent[u]] < pos[u], "preorder lists parents before children");
                otbl += T.time[O.parent[u]] - T.time[u];
            }
        }
        sym_assert((int) n == reach, "preorder length");
        ret = tsk_tree_postorder(tree, order, &n);
        sym_assert(ret == 0 && (int) n == reach, "postorder length");
        for (u = 0; u < NN; u++) {
            pos[u] = -1;
        }
        for (j = 0; j < (int) n; j++) {
            pos[order[j]] = j;
        }
        for (u = 0; u < NN; u++) {
            if (pos[u] >= 0 && O.parent[u] != TSK_NULL) {
                sym_assert(pos[O.parent[u]] > pos[u], "postorder lists children before parents");
            }
        }
        ret = tsk_tree_get_total_branch_length(tree, TSK_NULL, &tbl);
        sym_assert(ret == 0 && tbl == otbl, "total branch length over the roots");
        for (u = 0; u < NN; u++) {
            od = 0;
            for (v = u, k = 0; k <= NN && O.parent[v] != TSK_NULL; k++) {
                v = O.parent[v];
                od++;
            }
            ret = tsk_tree_get_depth(tree, u, &depth);
            sym_assert(ret == 0 && depth == od, "depth is the number of ancestors");
            for (v = u + 1; v < NN; v++) {
                tsk_id_t om = TSK_NULL, w;
                for (w = u, k = 0; k <= NN && w != TSK_NULL; k++) {
                    if (h_o_is_anc(&O, NN, w, v)) {
                        om = w;
                        break;
                    }
                    w = O.parent[w];
                }
                ret = tsk_tree_get_mrca(tree, u, v, &m);
                sym_assert(ret == 0 && m == om, "mrca is the first common node on the two root paths");
            }
        }
    }
#if NS > 0
    {
        const tsk_site_t *sites;
        tsk_size_t ns;
        int ret = tsk_tree_get_sites(tree, &sites, &ns);
        cnt = 0;
        sym_assert(ret == 0, "get_sites");
        for (j = 0; j < NS; j++) {
            if (x <= site_pos[j] && site_pos[j] < tree->interval.right) {
                sym_assert((tsk_size_t) cnt < ns && sites[cnt].id == j, "tree sites are the sites inside the interval, in order");
                cnt++;
            }
        }
        sym_assert(ns == (tsk_size_t) cnt, "no other sites in the tree");
    }
#endif
}

int
main_c01(void)
{
    tsk_table_collection_t t;
    tsk_treeseq_t ts;
    tsk_tree_t tree;
    int ret, pass, ntrees;
    double expect_left;
    static const int opts[3] = { 0, TSK_SAMPLE_LISTS, TSK_NO_SAMPLE_COUNTS };
    int tracked[MAXN];
    tsk_id_t tr_list[2];
    const double *bp;

    if (h_build_treeseq(&t, &ts, &T) != 0) {
        return 0;
    }
    bp = tsk_treeseq_get_breakpoints(&ts);
    for (pass = 0; pass < 3; pass++) {
        int rt = pass == 1 ? 2 : 1;
        if (!((PASSES >> pass) & 1)) {
            continue;
        }
        int ntracked = 0, u;
        ret = tsk_tree_init(&tree, &ts, opts[pass]);
        sym_assume(ret == 0);
        for (u = 0; u < NN; u++) {
            tracked[u] = 0;
        }
        if (pass == 1) {
            /* track the first sample only */
            for (u = 0; u < NN && ntracked < 1; u++) {
                if (T.flags[u] & TSK_NODE_IS_SAMPLE) {
                    tracked[u] = 1;
                    tr_list[ntracked++] = u;
                }
            }
            ret = tsk_tree_set_tracked_samples(&tree, (tsk_size_t) ntracked, tr_list);
            sym_assert(ret == 0, "set_tracked_samples");
            ret = tsk_tree_set_root_threshold(&tree, (tsk_size_t) rt);
            sym_assert(ret == 0, "set_root_threshold");
        }
        expect_left = 0;
        ntrees = 0;
        for (ret = tsk_tree_first(&tree); ret == TSK_TREE_OK; ret = tsk_tree_next(&tree)) {
            sym_assert(tree.interval.left == expect_left, "tree intervals are contiguous from 0");
            sym_assert(tree.interval.left < tree.interval.right, "tree interval is non-empty");
            sym_assert(tree.index == ntrees, "tree index counts from 0");
            sym_assert(bp[ntrees] == tree.interval.left && bp[ntrees + 1] == tree.interval.right, "breakpoints array matches intervals");
            expect_left = tree.interval.right;
            check_tree(&tree, &ts, opts[pass], rt, tracked, 1);
            ntrees++;
        }
        sym_assert(ret == 0, "forward iteration ends cleanly");
        sym_assert(expect_left == SEQ_L, "trees cover [0,L)");
        sym_assert((tsk_size_t) ntrees == tsk_treeseq_get_num_trees(&ts), "num_trees");
        if (pass == 0) {
            /* backwards */
            double expect_right = SEQ_L;
            for (ret = tsk_tree_last(&tree); ret == TSK_TREE_OK; ret = tsk_tree_prev(&tree)) {
                sym_assert(tree.interval.right == expect_right, "reverse iteration is contiguous from L");
                expect_right = tree.interval.left;
                check_tree(&tree, &ts, opts[pass], rt, tracked, 0);
                ntrees--;
            }
            sym_assert(ret == 0 && expect_right == 0 && ntrees == 0, "reverse iteration covers [0,L)");
        }
        tsk_tree_free(&tree);
    }
    if (tsk_treeseq_get_num_trees(&ts) >= 2) {
        sym_reach("multi-tree");
    }
    tsk_treeseq_free(&ts);
    tsk_table_collection_free(&t);
    SYM_END();
    return 0;
}
