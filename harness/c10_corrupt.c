/* C10: truncated or corrupted files are rejected, never loaded as something else.
 * MODE 1: every proper prefix (symbolic length) of a dumped tskit file, also as the
 *         second object of a stream, eager and skip_* read paths, fails to load.
 * MODE 2: one symbolic byte at every structural position (header, descriptors) of a
 *         small kastore file: open fails, or the store is identical to the original.
 * MODE 3: one symbolic byte in the header / descriptors / key region of a tskit file
 *         (positions by choice within [POS_LO,POS_HI] step POS_STEP): loadf fails.
 * MODE 4: one symbolic byte in the data region: loadf fails, or the result is a
 *         well-formed object that round-trips through dump and load.
 */
#include "common.h"
#include <kastore.h>

#ifndef MODE
#define MODE 1
#endif

static void
build(tsk_table_collection_t *t)
{
    int ret = tsk_table_collection_init(t, 0);
    tsk_id_t par[1] = { -1 };
    double loc[1] = { 0.5 };
    sym_assume(ret == 0);
    t->sequence_length = 2;
    tsk_table_collection_set_metadata(t, "m", 1);
    tsk_reference_sequence_set_data(&t->reference_sequence, "ACGT", 4);
    tsk_population_table_add_row(&t->populations, "p", 1);
    tsk_individual_table_add_row(&t->individuals, 0, loc, 1, par, 1, "i", 1);
    tsk_node_table_add_row(&t->nodes, TSK_NODE_IS_SAMPLE, 0, 0, 0, "a", 1);
    tsk_node_table_add_row(&t->nodes, TSK_NODE_IS_SAMPLE, 0, -1, -1, NULL, 0);
    tsk_node_table_add_row(&t->nodes, 0, 1, -1, -1, NULL, 0);
    tsk_edge_table_add_row(&t->edges, 0, 2, 2, 0, NULL, 0);
    tsk_edge_table_add_row(&t->edges, 0, 1, 2, 1, NULL, 0);
    tsk_site_table_add_row(&t->sites, 0.5, "A", 1, NULL, 0);
    tsk_mutation_table_add_row(&t->mutations, 0, 0, -1, TSK_UNKNOWN_TIME, "T", 1, NULL, 0);
    tsk_migration_table_add_row(&t->migrations, 0, 1, 0, 0, 0, 0.5, NULL, 0);
    tsk_provenance_table_add_row(&t->provenances, "ts", 2, "rec", 3);
    ret = tsk_table_collection_build_index(t, 0);
    sym_assume(ret == 0);
}

static tsk_flags_t
load_options(void)
{
    switch (sym_choice("loadopt", 0, 2)) {
        case 1:
            return TSK_LOAD_SKIP_TABLES;
        case 2:
            return TSK_LOAD_SKIP_REFERENCE_SEQUENCE;
    }
    return 0;
}

#if MODE == 1
int
main_c10(void)
{
    tsk_table_collection_t t, t2;
    FILE *f = sym_file_new();
    int64_t n1, n2, n;
    int ret, second = sym_choice("second", 0, 1);
    tsk_flags_t opt = load_options();

    build(&t);
    ret = tsk_table_collection_dumpf(&t, f, 0);
    sym_assume(ret == 0);
    n1 = sym_file_len(f);
    ret = tsk_table_collection_dumpf(&t, f, 0);
    sym_assume(ret == 0);
    n2 = sym_file_len(f);
    n = sym_i64("n");
    if (second) {
        /* after a lazy (skip_*) load the stream is not positioned at the end of the object: not a supported sequence */
        sym_assume(opt == 0);
        sym_assume(n >= n1 && n < n2);
    } else {
        sym_assume(n >= 0 && n < n1);
    }
    sym_file_set_len(f, n);
    sym_file_rewind(f);
    ret = tsk_table_collection_loadf(&t2, f, opt);
    if (second) {
        sym_assert(ret == 0, "the complete first object loads");
        sym_assert(tsk_table_collection_equals(&t, &t2, opt ? TSK_CMP_IGNORE_TABLES | TSK_CMP_IGNORE_REFERENCE_SEQUENCE : 0), "first object intact");
        tsk_table_collection_free(&t2);
        ret = tsk_table_collection_loadf(&t2, f, opt);
    }
    sym_assert(ret < 0, "a proper prefix of a dumped file is rejected");
    sym_assert((ret == TSK_ERR_EOF) == (n == (second ? n1 : 0)), "EOF is reported exactly at an object boundary");
    tsk_table_collection_free(&t2);
    tsk_table_collection_free(&t);
    SYM_END();
    return 0;
}
#endif

#if MODE == 2
int
main_c10(void)
{
    kastore_t st;
    FILE *f = sym_file_new();
    int8_t a[3] = { 1, 2, 3 };
    uint32_t b[2] = { 7, 8 };
    double c[2] = { 1.5, 2.5 };
    int ret, pos, val, orig, flags;
    void *arr;
    size_t len;
    int type;

    ret = kastore_openf(&st, f, "w", 0);
    sym_assume(ret == 0);
    ret = kastore_puts_int8(&st, "a", a, 3, 0);
    sym_assume(ret == 0);
    ret = kastore_puts_uint32(&st, "bb", b, 2, 0);
    sym_assume(ret == 0);
    ret = kastore_puts_float64(&st, "ccc", c, 2, 0);
    sym_assume(ret == 0);
    ret = kastore_close(&st);
    sym_assume(ret == 0);
    /* header (64) + 3 descriptors (192): the structural region before the keys */
    pos = sym_choice("pos", 0, 64 + 3 * 64 - 1);
    orig = sym_file_peek(f, pos);
    val = sym_i8("val") & 0xff;
    sym_assume(val != orig);
    sym_file_poke(f, pos, val);
    sym_file_rewind(f);
    flags = sym_choice("readall", 0, 1) ? KAS_READ_ALL : 0;
    ret = kastore_openf(&st, f, "r", flags);
    if (ret == 0) {
        /* kastore alone has no checksums: what it must guarantee is that whatever it hands out lies inside
         * memory it read from the file (the typed, length-checked reading is tskit's job: MODE 3) */
        const char *keys[3] = { "a", "bb", "ccc" };
        static const size_t tsize[] = { 1, 1, 2, 2, 4, 4, 8, 8, 4, 8 };
        int j;
        volatile char sink;
        sym_reach("accepted");
        for (j = 0; j < 3; j++) {
            if (kastore_gets(&st, keys[j], &arr, &len, &type) == 0) {
                sym_assert(type >= 0 && type < KAS_NUM_TYPES, "array type is a known type");
                sym_assert(len <= (size_t) sym_file_len(f), "an array handed out by kastore is no longer than the file");
                if (len > 0) {
                    sink = ((char *) arr)[0];
                    sink = ((char *) arr)[len * tsize[type] - 1];
                }
            }
        }
        (void) sink;
        kastore_close(&st);
    }
    SYM_END();
    return 0;
}
#endif

#if MODE == 3 || MODE == 4
/* well-formedness of one ragged column: offsets start at 0, never decrease, end at the data length */
static int
ragged_ok(const tsk_size_t *off, tsk_size_t num_rows, tsk_size_t data_len)
{
    tsk_size_t j;
    if (off[0] != 0 || off[num_rows] != data_len) {
        return 0;
    }
    for (j = 0; j < num_rows; j++) {
        if (off[j] > off[j + 1]) {
            return 0;
        }
    }
    return 1;
}

static int
well_formed(const tsk_table_collection_t *t)
{
    return ragged_ok(t->nodes.metadata_offset, t->nodes.num_rows, t->nodes.metadata_length)
           && ragged_ok(t->edges.metadata_offset, t->edges.num_rows, t->edges.metadata_length)
           && ragged_ok(t->sites.ancestral_state_offset, t->sites.num_rows, t->sites.ancestral_state_length)
           && ragged_ok(t->sites.metadata_offset, t->sites.num_rows, t->sites.metadata_length)
           && ragged_ok(t->mutations.derived_state_offset, t->mutations.num_rows, t->mutations.derived_state_length)
           && ragged_ok(t->mutations.metadata_offset, t->mutations.num_rows, t->mutations.metadata_length)
           && ragged_ok(t->migrations.metadata_offset, t->migrations.num_rows, t->migrations.metadata_length)
           && ragged_ok(t->individuals.location_offset, t->individuals.num_rows, t->individuals.location_length)
           && ragged_ok(t->individuals.parents_offset, t->individuals.num_rows, t->individuals.parents_length)
           && ragged_ok(t->individuals.metadata_offset, t->individuals.num_rows, t->individuals.metadata_length)
           && ragged_ok(t->populations.metadata_offset, t->populations.num_rows, t->populations.metadata_length)
           && ragged_ok(t->provenances.timestamp_offset, t->provenances.num_rows, t->provenances.timestamp_length)
           && ragged_ok(t->provenances.record_offset, t->provenances.num_rows, t->provenances.record_length);
}

/* equality of everything that is not an optional column: used to tell "a key alteration only hid optional columns" from
 * "the file loaded as something else" */
static int
core_equal(const tsk_table_collection_t *a, const tsk_table_collection_t *b)
{
    tsk_size_t j;
    if (a->sequence_length != b->sequence_length || a->nodes.num_rows != b->nodes.num_rows || a->edges.num_rows != b->edges.num_rows
        || a->sites.num_rows != b->sites.num_rows || a->mutations.num_rows != b->mutations.num_rows
        || a->migrations.num_rows != b->migrations.num_rows || a->individuals.num_rows != b->individuals.num_rows
        || a->populations.num_rows != b->populations.num_rows || a->provenances.num_rows != b->provenances.num_rows) {
        return 0;
    }
    for (j = 0; j < a->nodes.num_rows; j++) {
        if (a->nodes.flags[j] != b->nodes.flags[j] || a->nodes.time[j] != b->nodes.time[j] || a->nodes.population[j] != b->nodes.population[j]
            || a->nodes.individual[j] != b->nodes.individual[j]) {
            return 0;
        }
    }
    for (j = 0; j < a->edges.num_rows; j++) {
        if (a->edges.left[j] != b->edges.left[j] || a->edges.right[j] != b->edges.right[j] || a->edges.parent[j] != b->edges.parent[j]
            || a->edges.child[j] != b->edges.child[j]) {
            return 0;
        }
    }
    for (j = 0; j < a->sites.num_rows; j++) {
        if (a->sites.position[j] != b->sites.position[j] || a->sites.ancestral_state_offset[j + 1] != b->sites.ancestral_state_offset[j + 1]) {
            return 0;
        }
    }
    for (j = 0; j < a->mutations.num_rows; j++) {
        if (a->mutations.site[j] != b->mutations.site[j] || a->mutations.node[j] != b->mutations.node[j]
            || a->mutations.parent[j] != b->mutations.parent[j]) {
            return 0;
        }
    }
    for (j = 0; j < a->migrations.num_rows; j++) {
        if (a->migrations.time[j] != b->migrations.time[j] || a->migrations.node[j] != b->migrations.node[j]) {
            return 0;
        }
    }
    return 1;
}

/* Byte classes of a kastore file (docs: kastore file format).  Reserved bytes are written as zero and never read
 * back; keys of columns that tskit treats as optional can be renamed into "unknown" keys, which are ignored by design. */
static const char *optional_keys[] = { "individuals/parents", "individuals/parents_offset", "metadata", "metadata_schema",
    "time_units", "mutations/time", "reference_sequence/data", "reference_sequence/url", "reference_sequence/metadata",
    "reference_sequence/metadata_schema", "indexes/edge_insertion_order", "indexes/edge_removal_order",
    "edges/metadata", "edges/metadata_offset", "migrations/metadata", "migrations/metadata_offset",
    "individuals/metadata_schema", "nodes/metadata_schema", "edges/metadata_schema", "sites/metadata_schema",
    "mutations/metadata_schema", "migrations/metadata_schema", "populations/metadata_schema", NULL };

static int64_t
peek64(FILE *f, int64_t pos)
{
    int64_t v = 0;
    int j;
    for (j = 7; j >= 0; j--) {
        v = v * 256 + sym_file_peek(f, pos + j);
    }
    return v;
}

static int
key_has_prefix(FILE *f, int64_t ks, int64_t kl, const char *prefix)
{
    int64_t m, n = (int64_t) strlen(prefix);
    if (kl < n) {
        return 0;
    }
    for (m = 0; m < n && sym_file_peek(f, ks + m) == (unsigned char) prefix[m]; m++) {
    }
    return m == n;
}

/* does the read path selected by `opt` skip item j altogether? */
static int
item_skipped(FILE *f, int j, tsk_flags_t opt)
{
    static const char *tables[] = { "nodes/", "edges/", "sites/", "mutations/", "migrations/", "individuals/",
        "populations/", "provenances/", "indexes/", NULL };
    int64_t ks = peek64(f, 64 + 64 * j + 8), kl = peek64(f, 64 + 64 * j + 16);
    int k;
    if (opt & TSK_LOAD_SKIP_TABLES) {
        for (k = 0; tables[k] != NULL; k++) {
            if (key_has_prefix(f, ks, kl, tables[k])) {
                return 1;
            }
        }
    }
    if (opt & (TSK_LOAD_SKIP_TABLES | TSK_LOAD_SKIP_REFERENCE_SEQUENCE)) {
        return key_has_prefix(f, ks, kl, "reference_sequence/");
    }
    return 0;
}

/* 0: validated structural byte; 1: reserved/unvalidated byte; 2: key byte of an optional column; 3: other key byte;
 * 4: descriptor or key byte of an item that the selected skip_* read path never looks at (kastore still checks that
 *    the items pack consistently); 5: a byte of a descriptor's array_len */
static int
classify(FILE *f, int pos, int nitems, tsk_flags_t opt)
{
    int j, k, m;
    if (pos < 64) {
        return (pos >= 10 && pos <= 11) || pos >= 24;
    }
    if (pos < 64 + 64 * nitems) {
        int off = (pos - 64) % 64;
        if ((off >= 1 && off <= 7) || off >= 40) {
            return 1;
        }
        if (item_skipped(f, (pos - 64) / 64, opt)) {
            return 4;
        }
        return off >= 32 ? 5 : 0; /* 5: a byte of array_len */
    }
    {
        /* alignment padding between the last key and the first array is never read */
        int64_t kend = peek64(f, 64 + 64 * (nitems - 1) + 8) + peek64(f, 64 + 64 * (nitems - 1) + 16);
        if (pos >= kend) {
            return 1;
        }
    }
    for (j = 0; j < nitems; j++) {
        int64_t ks = peek64(f, 64 + 64 * j + 8), kl = peek64(f, 64 + 64 * j + 16);
        if (pos >= ks && pos < ks + kl) {
            if (item_skipped(f, j, opt)) {
                return 4;
            }
            for (k = 0; optional_keys[k] != NULL; k++) {
                if ((int64_t) strlen(optional_keys[k]) == kl) {
                    for (m = 0; m < kl && sym_file_peek(f, ks + m) == (unsigned char) optional_keys[k][m]; m++) {
                    }
                    if (m == kl) {
                        return 2;
                    }
                }
            }
            return 3;
        }
    }
    return 3;
}

#ifndef POS_LO
#define POS_LO 0
#endif
#ifndef POS_HI
#define POS_HI 63
#endif
#ifndef POS_STEP
#define POS_STEP 1
#endif
int
main_c10(void)
{
    tsk_table_collection_t t, t2, t3;
    FILE *f = sym_file_new(), *g;
    int ret, pos, val, orig, cls = 0;
    tsk_flags_t opt = MODE == 3 ? load_options() : 0;

    build(&t);
    ret = tsk_table_collection_dumpf(&t, f, 0);
    sym_assume(ret == 0);
    {
        int nitems = sym_file_peek(f, 12) + 256 * sym_file_peek(f, 13);
        int base = 0;
#if defined(REGION_KEYS)
        base = 64 + 64 * nitems; /* first key byte */
#elif defined(REGION_DATA)
        base = sym_file_peek(f, 64 + 24) + 256 * sym_file_peek(f, 64 + 25); /* array_start of the first item */
#elif defined(REGION_LASTDESC)
        base = 64 + 64 * (nitems - 1);
#endif
#if defined(REGION_OFFSETS)
        {
            /* every byte of every ragged-offset array: item by choice, byte by choice */
            static const size_t tsz[] = { 1, 1, 2, 2, 4, 4, 8, 8, 4, 8 };
            int item = sym_choice("item", 0, 79), b;
            int64_t ks, kl, as, al;
            if (item >= nitems) {
                sym_assume(0);
            }
            ks = peek64(f, 64 + 64 * item + 8);
            kl = peek64(f, 64 + 64 * item + 16);
            as = peek64(f, 64 + 64 * item + 24);
            al = peek64(f, 64 + 64 * item + 32) * (int64_t) tsz[sym_file_peek(f, 64 + 64 * item)];
            if (kl < 7 || sym_file_peek(f, ks + kl - 7) != '_' || sym_file_peek(f, ks + kl - 6) != 'o'
                || sym_file_peek(f, ks + kl - 1) != 't') {
                sym_assume(0);
            }
            b = sym_choice("byte", 0, 23);
            if (b >= al) {
                sym_assume(0);
            }
            pos = (int) (as + b);
        }
#else
        pos = base + POS_LO + POS_STEP * sym_choice("k", 0, (POS_HI - POS_LO) / POS_STEP);
#endif
#if defined(REGION_KEYS)
        if (pos >= sym_file_peek(f, 64 + 24) + 256 * sym_file_peek(f, 64 + 25)) {
            sym_assume(0); /* beyond the key region */
        }
#endif
    }
    sym_assume(pos < sym_file_len(f));
#if MODE == 3
    cls = classify(f, pos, sym_file_peek(f, 12) + 256 * sym_file_peek(f, 13), opt);
#endif
    orig = sym_file_peek(f, pos);
    val = sym_i8("val") & 0xff;
    sym_assume(val != orig);
    if (pos >= 13 && pos <= 15) {
        /* item counts above 65535 only lengthen kastore_close's loop over the (rejected) items: outside the claim */
        sym_assume(0);
    }
    sym_file_poke(f, pos, val);
    sym_file_rewind(f);
    ret = tsk_table_collection_loadf(&t2, f, opt);
    sym_assert(ret <= 0, "error code");
#if MODE == 3
    if (ret == 0) {
        int eq = tsk_table_collection_equals(&t, &t2, opt ? TSK_CMP_IGNORE_TABLES | TSK_CMP_IGNORE_REFERENCE_SEQUENCE : 0);
        sym_reach("accepted");
        if (cls == 2 || cls == 3 || (cls == 4 && pos >= 64 + 64 * (sym_file_peek(f, 12) + 256 * sym_file_peek(f, 13)))) {
            /* key bytes: keys are looked up by binary search over names that are assumed sorted; a renamed key can hide
             * itself and other optional columns */
            if (!eq) {
                sym_assert(opt != 0 || core_equal(&t, &t2), "a file with an altered key byte loads with at most optional columns missing");
            }
        } else if (cls == 5) {
            if (!eq) {
                sym_assert(opt != 0 || core_equal(&t, &t2), "a file with an altered array length loads with at most an optional byte array resized into its padding");
            }
        } else {
            sym_assert(eq, "a collection loaded from a structurally altered file equals the original");
        }
    }
    if (cls == 5) {
        sym_assert(ret != 0, "an altered array length byte is rejected");
    } else if (cls == 3) {
        sym_assert(ret != 0, "an altered key byte of a required column is rejected");
    } else if (cls == 1) {
        sym_assert(ret != 0, "an altered reserved byte (header minor version / padding, descriptor padding) is rejected");
    } else if (cls == 2) {
        sym_assert(ret != 0, "an altered key byte of an optional column is rejected");
    } else if (cls == 4) {
        sym_assert(ret != 0, "an altered descriptor or key byte of an item skipped by skip_tables/skip_reference_sequence is rejected");
    } else {
        sym_assert(ret != 0, "an altered structural byte is rejected");
    }
#else
    if (ret == 0) {
        sym_reach("accepted");
        sym_assert(well_formed(&t2), "every ragged column of a loaded object has consistent offsets");
        /* well-formed: round-trips through dump and load */
        g = sym_file_new();
        ret = tsk_table_collection_dumpf(&t2, g, 0);
        sym_assert(ret == 0, "object loaded from data-corrupted file can be dumped");
        sym_file_rewind(g);
        ret = tsk_table_collection_loadf(&t3, g, 0);
        sym_assert(ret == 0, "and loads again");
        sym_assert(tsk_table_collection_equals(&t2, &t3, 0), "and round-trips");
        tsk_table_collection_free(&t3);
        {
            tsk_treeseq_t ts;
            ret = tsk_treeseq_init(&ts, &t2, 0);
            sym_assert(ret <= 0, "tskit.load either rejects it or builds a tree sequence");
            if (ret == 0) {
                sym_reach("valid-ts");
            }
            tsk_treeseq_free(&ts);
        }
    }
#endif
    tsk_table_collection_free(&t2);
    tsk_table_collection_free(&t);
    SYM_END();
    return 0;
}
#endif
