/* Intrinsics shared by the symbolic engine (llsym.py interprets calls to them)
 * and the native replay runtime (sym_native.c reads the values from a file). */
#ifndef SYM_H
#define SYM_H
#include <stdint.h>
#include <stdio.h>
#include <stddef.h>

int32_t sym_i8(const char *name);  /* free 8-bit value, sign-extended by the caller's cast */
int32_t sym_i32(const char *name); /* free 32-bit value */
int64_t sym_i64(const char *name); /* free 64-bit value */
double sym_f64(const char *name);  /* free binary64 (z3 FloatingPoint) */
double sym_f64_int(const char *name); /* a double that is exactly an integer in [-128,127] */
int32_t sym_choice(const char *name, int32_t lo, int32_t hi); /* eager split lo..hi */
void sym_assume(int cond);
void sym_assert(int cond, const char *msg);
void sym_reach(const char *tag);
void sym_fail_alloc_at(int32_t k);  /* k-th allocation from now returns NULL; k<=0 never */
void sym_readonly(const void *p, int on); /* engine: writes into p's object are findings */

FILE *sym_file_new(void);
void sym_file_rewind(FILE *f);
void sym_file_set_len(FILE *f, int64_t n);
int64_t sym_file_len(FILE *f);
void sym_file_poke(FILE *f, int64_t pos, int32_t byte); /* overwrite one byte of the file image */
int32_t sym_file_peek(FILE *f, int64_t pos);
FILE *sym_file_unseekable(FILE *f); /* the rest of f as a stream on which ftell/fseek fail (a pipe) */

/* name helper: "x" + index -> static buffer per call site is the caller's job */
static inline const char *
sym_nm(char *buf, const char *prefix, int j)
{
    int i = 0;
    while (prefix[i]) {
        buf[i] = prefix[i];
        i++;
    }
    if (j >= 10) {
        buf[i++] = (char) ('0' + j / 10);
    }
    buf[i++] = (char) ('0' + j % 10);
    buf[i] = 0;
    return buf;
}
#endif
