"""Build steps: LLVM IR of /repo's C sources + harness for the symbolic engine,
and a native sanitizer build of the same harness for replay."""
import os
import re
import subprocess
from concurrent.futures import ThreadPoolExecutor

REPO = os.environ.get('VERIF_REPO', '/repo')
HERE = os.path.dirname(os.path.abspath(__file__))
VERIF = os.path.dirname(HERE)
INC = ['-I' + REPO + '/c', '-I' + REPO + '/c/subprojects/kastore', '-I' + HERE, '-I' + VERIF + '/harness']
IRFLAGS = ['-O0', '-Xclang', '-disable-O0-optnone', '-std=c99', '-fno-builtin', '-emit-llvm', '-S', '-w']
NATFLAGS = ['-O0', '-g', '-std=gnu99', '-w', '-fsanitize=address,undefined', '-fno-sanitize-recover=undefined', '-fno-sanitize=nonnull-attribute',
            '-fno-omit-frame-pointer']


def lib_sources():
    d = REPO + '/c/tskit'
    out = sorted(os.path.join(d, f) for f in os.listdir(d) if f.endswith('.c'))
    out.append(REPO + '/c/subprojects/kastore/kastore.c')
    return out


def run(cmd):
    r = subprocess.run(cmd, capture_output=True, text=True)
    if r.returncode != 0:
        raise RuntimeError('build step failed: %s\n%s' % (' '.join(cmd), r.stderr[-4000:]))


def c_to_ll(src, out, defines=()):
    tmp = out + '.raw.ll'
    run(['clang'] + IRFLAGS + INC + list(defines) + [src, '-o', tmp])
    run(['opt', '-S', '-mem2reg', '-simplifycfg', tmp, '-o', out])
    os.unlink(tmp)


def build_lib_ir(scratch):
    os.makedirs(scratch + '/ir', exist_ok=True)
    srcs = lib_sources() + [HERE + '/shim.c']
    outs = {}
    with ThreadPoolExecutor(8) as tp:
        futs = []
        for s in srcs:
            o = scratch + '/ir/' + os.path.basename(s)[:-2] + '.ll'
            outs[os.path.basename(s)] = o
            futs.append(tp.submit(c_to_ll, s, o))
        for f in futs:
            f.result()
    return outs


MSANFLAGS = ['-O0', '-g', '-std=gnu99', '-w', '-fsanitize=memory', '-fno-omit-frame-pointer']


def build_lib_native(scratch, msan=False):
    if msan:
        return _build_lib_msan(scratch)
    os.makedirs(scratch + '/nat', exist_ok=True)
    srcs = lib_sources() + [HERE + '/sym_native.c']
    outs = {}
    with ThreadPoolExecutor(8) as tp:
        futs = []
        for s in srcs:
            o = scratch + '/nat/' + os.path.basename(s)[:-2] + '.o'
            outs[os.path.basename(s)] = o
            if os.path.basename(s) == 'sym_native.c':
                continue
            futs.append(tp.submit(run, ['clang'] + NATFLAGS + INC + ['-c', s, '-o', o]))
        for f in futs:
            f.result()
    del outs['sym_native.c']
    return outs


def unity_of(harness):
    txt = open(harness).read()
    m = re.search(r'UNITY:\s*([\w., ]+)', txt)
    return [x.strip() for x in m.group(1).split(',')] if m else []


def def_flags(defines):
    return ['-D%s=%s' % kv for kv in sorted(defines.items())]


def link_harness_ir(scratch, lib, harness, defines, tag):
    h = scratch + '/ir/h_%s.ll' % tag
    c_to_ll(harness, h, def_flags(defines))
    skip = set(unity_of(harness))
    out = scratch + '/ir/linked_%s.ll' % tag
    run(['llvm-link', '-S', h] + [p for n, p in sorted(lib.items()) if n not in skip] + ['-o', out])
    return out


def link_harness_native(scratch, libn, harness, defines, entry, tag):
    out = scratch + '/nat/h_%s' % tag
    skip = set(unity_of(harness))
    objs = [p for n, p in sorted(libn.items()) if n not in skip]
    run(['clang'] + NATFLAGS + INC + def_flags(defines) + ['-DSYM_ENTRY=' + entry, harness, HERE + '/sym_native.c']
        + objs + ['-lm', '-o', out])
    return out


def _build_lib_msan(scratch):
    os.makedirs(scratch + '/msan', exist_ok=True)
    outs = {}
    with ThreadPoolExecutor(8) as tp:
        futs = []
        for s in lib_sources():
            o = scratch + '/msan/' + os.path.basename(s)[:-2] + '.o'
            outs[os.path.basename(s)] = o
            futs.append(tp.submit(run, ['clang'] + MSANFLAGS + INC + ['-c', s, '-o', o]))
        for f in futs:
            f.result()
    return outs


def link_harness_msan(scratch, libm, harness, defines, entry, tag):
    out = scratch + '/msan/h_%s' % tag
    skip = set(unity_of(harness))
    objs = [p for n, p in sorted(libm.items()) if n not in skip]
    run(['clang'] + MSANFLAGS + INC + def_flags(defines) + ['-DSYM_ENTRY=' + entry, harness, HERE + '/sym_native.c']
        + objs + ['-lm', '-o', out])
    return out
