"""Driver for llsym harness jobs: build, partitioned parallel symbolic execution,
native replay of counterexamples and sampled paths, evidence, exit codes."""
import json
import multiprocessing as mp
import os
import re
import shutil
import subprocess
import sys
import tempfile
import time

HERE = os.path.dirname(os.path.abspath(__file__))
VERIF = os.path.dirname(HERE)
OUTDIR = os.environ.get('VERIF_OUT', VERIF)
sys.path.insert(0, HERE)
import cbuild  # noqa: E402

NPROC = int(os.environ.get('VERIF_NPROC', '16'))

STUBS = [
    'malloc/calloc/realloc/free: fresh object of concretised size, uninitialised unless calloc',
    'memcpy/memmove/memset: native on the byte map with bounds/init checks',
    'qsort: stable insertion sort (shim.c); bsearch/strlen/strcmp/strncmp/memcmp/strcpy/strcat: C shims interpreted',
    'fprintf/printf/fputs: no-ops',
    'FILE*: in-memory byte buffer with symbolic length; fread forks enough-bytes/short-read; no I/O errors but EOF',
    'abort/__assert_fail: finding',
    'tsk_generate_uuid: fixed bytes',
]

_MODCACHE = {}


def _worker(task):
    """Runs in a pool process.  mode 'split': breadth-first from the entry until enough states are pending;
    'run': follow a decision trace, then depth-first for at most `timeout` seconds; 'twin': stop at first finding.
    Pending states come back as decision traces (frontier) for re-dispatch."""
    ll, entry, mode, trace, timeout, max_steps, split_target = task
    hang = max_steps < 0
    max_steps = abs(max_steps)
    import faulthandler
    import signal
    import llir
    import llsym
    faulthandler.register(signal.SIGUSR1, all_threads=False)
    t0 = time.time()
    mod = _MODCACHE.get(ll)
    if mod is None:
        if len(_MODCACHE) >= 3:
            _MODCACHE.clear()
        mod = llir.Module().parse(ll)
        _MODCACHE[ll] = mod
    # per-job engine settings travel in a side file next to the IR (the pool is forked before jobs are known)
    for k in ('LLSYM_Z3_TIMEOUT_MS', 'LLSYM_CVC5_TIMEOUT_MS'):
        os.environ.pop(k, None)
    if os.path.exists(ll + '.env'):
        os.environ.update(json.load(open(ll + '.env')))
    ex = llsym.Executor(mod, replay=trace)
    ex.hang_is_finding = hang
    if mode == 'twin':
        ex.stop_after_findings = 1
    try:
        if mode == 'split':
            ex.run('@' + entry, timeout=timeout, max_steps=max_steps, split_target=split_target, split_time=15)
        else:
            ex.run('@' + entry, timeout=timeout, max_steps=max_steps)
        err = None
    except Exception as e:  # engine error: never a verdict
        import traceback
        err = '%s: %s\n%s' % (type(e).__name__, e, traceback.format_exc()[-1500:])
    st = ex.stats
    return dict(stats={k: v for k, v in st.items() if isinstance(v, (int, float))}, findings=ex.findings,
                reach=ex.reach_counts, samples=ex.samples, calls=ex.calls, err=err, mode=mode,
                frontier=getattr(ex, 'frontier', []), wall=time.time() - t0)


def write_model(path, model):
    with open(path, 'w') as f:
        for k, v in (model or {}).items():
            f.write('%s %s\n' % (k, v))


def native_run(binary, model, scratch, timeout=30):
    fd, p = tempfile.mkstemp(dir=scratch, suffix='.in')
    os.close(fd)
    write_model(p, model)
    env = dict(os.environ, SYM_INPUT=p, ASAN_OPTIONS='detect_leaks=0:abort_on_error=0:allocator_may_return_null=1', UBSAN_OPTIONS='print_stacktrace=1')
    try:
        r = subprocess.run([binary], capture_output=True, text=True, env=env, timeout=timeout, errors='replace')
        out, errt, rc = r.stdout, r.stderr, r.returncode
    except subprocess.TimeoutExpired:
        out, errt, rc = '', 'TIMEOUT', -9
    os.unlink(p)
    reach = re.findall(r'^REACH (.*)$', out, re.M)
    fails = re.findall(r'^ASSERT-FAIL (.*)$', out, re.M)
    san = None
    m = re.search(r'(ERROR: AddressSanitizer[^\n]*|WARNING: MemorySanitizer[^\n]*|runtime error:[^\n]*|Assertion[^\n]*failed[^\n]*)', errt)
    if m:
        san = m.group(1)
    elif rc not in (0, 77) and 'EXIT' not in out:
        san = 'abnormal exit rc=%d %s' % (rc, errt[-300:])
    return dict(reach=reach, fails=fails, san=san, rc=rc, assume_fail='ASSUME-FAIL' in out or 'CHOICE-RANGE' in out,
                stderr=errt[-1500:])


class Check:
    def __init__(self, pid, tier):
        self.pid = pid
        self.tier = tier
        self.t0 = time.time()
        self.scratch = tempfile.mkdtemp(prefix='verif_%s_' % pid, dir=os.environ.get('VERIF_SCRATCH', '/tmp'))
        self.results = []
        self.violations = []
        self.known = []
        self.errors = []
        self.kf = load_known(pid)
        self._libm = None
        self.replay_dir = os.path.join(OUTDIR, 'replays', pid)

    def cleanup(self):
        shutil.rmtree(self.scratch, ignore_errors=True)

    # ---- C engine jobs ------------------------------------------------------
    def run_c_jobs(self, jobs):
        lib = cbuild.build_lib_ir(self.scratch)
        pool = mp.get_context('fork').Pool(NPROC)
        pending = []
        per_job = {}
        t_start = time.time()
        for ji, job in enumerate(jobs):
            job.setdefault('defines', {})
            job.setdefault('timeout', 300)
            if self.tier == 'thorough':
                job['timeout'] = max(job['timeout'], 3000)  # the thorough tier shares the cores between more jobs
                cap = int(os.environ.get('VERIF_THOROUGH_CAP', '0'))
                if cap:
                    job['timeout'] = min(job['timeout'], cap)  # optional shorter time box (seconds per job)
            job.setdefault('slice', 25)
            job.setdefault('max_steps', 20_000_000)
            if job.get('hang_is_finding'):
                job['max_steps'] = -abs(job['max_steps'])
            job['tag'] = '%s_%d' % (re.sub(r'\W', '_', job['name']), ji)
            harness = os.path.join(VERIF, 'harness', job['harness'])
            job['ll'] = cbuild.link_harness_ir(self.scratch, lib, harness, job['defines'], job['tag'])
            job['_left'] = 0
            per_job[ji] = []
            if job.get('env'):
                json.dump(job['env'], open(job['ll'] + '.env', 'w'))
            t = (job['ll'], job['entry'], 'split', None, job['timeout'], job['max_steps'], job.get('split', 4 * NPROC))
            pending.append((ji, pool.apply_async(_worker, (t,))))
            if job.get('twin', True):
                d2 = dict(job['defines'], VACUITY_TWIN=1)
                ll2 = cbuild.link_harness_ir(self.scratch, lib, harness, d2, job['tag'] + '_twin')
                if job.get('env'):
                    json.dump(job['env'], open(ll2 + '.env', 'w'))
                t = (ll2, job['entry'], 'twin', None, job.get('twin_timeout', 120), job['max_steps'], 0)
                pending.append((('twin', ji), pool.apply_async(_worker, (t,))))
        libn = cbuild.build_lib_native(self.scratch)  # overlaps with the symbolic runs
        queue = []  # (job index, trace) waiting for a worker; bounded in-flight so that deadlines are honoured
        while pending or queue:
            still = []
            for key, a in pending:
                if not a.ready():
                    still.append((key, a))
                    continue
                r = a.get()
                per_job.setdefault(key, []).append(r)
                if isinstance(key, int) and r['frontier']:
                    if r['err']:
                        jobs[key]['_left'] += len(r['frontier'])
                    else:
                        queue.extend((key, tr) for tr in r['frontier'])
            pending = still
            while queue and len(pending) < 2 * NPROC:
                # fair share: serve the job with the fewest tasks in flight
                inflight = {}
                for key_, _ in pending:
                    if isinstance(key_, int):
                        inflight[key_] = inflight.get(key_, 0) + 1
                best = min(range(len(queue)), key=lambda i: (inflight.get(queue[i][0], 0), -i))
                key, tr = queue.pop(best)
                job = jobs[key]
                left = job['timeout'] - (time.time() - t_start)
                if left <= 1:
                    job['_left'] += 1
                    continue
                sl = job['slice'] if len(queue) < 2 * NPROC else 4 * job['slice']
                t = (job['ll'], job['entry'], 'run', tr, min(sl, left), job['max_steps'], 0)
                pending.append((key, pool.apply_async(_worker, (t,))))
            time.sleep(0.02)
        pool.close()
        pool.join()
        for ji, job in enumerate(jobs):
            self._finish_job(job, per_job[ji], per_job.get(('twin', ji)), libn)

    def _native_bin(self, job, libn, twin=False):
        key = '_natbin_twin' if twin else '_natbin'
        if key not in job:
            harness = os.path.join(VERIF, 'harness', job['harness'])
            d = dict(job['defines'], VACUITY_TWIN=1) if twin else job['defines']
            job[key] = cbuild.link_harness_native(self.scratch, libn, harness, d, job['entry'],
                                                  job['tag'] + ('_twin' if twin else ''))
        return job[key]

    def _finish_job(self, job, parts, twin, libn):
        agg = dict(paths=0, forks=0, queries=0, qtime=0.0, instrs=0, findings=0, incomplete=0, inconclusive=0,
                   cache_hits=0, pruned=0, cvc5_queries=0, cvc5_time=0.0, cvc5_unsat=0, cvc5_sat=0, cvc5_unknown=0)
        reach, calls, findings, samples = {}, {}, [], []
        agg['incomplete'] = job['_left']
        for r in parts:
            if r['err']:
                self.errors.append('%s: engine error (%s task): %s' % (job['name'], r['mode'], r['err']))
            for k in agg:
                if k != 'incomplete':
                    agg[k] += r['stats'].get(k, 0)
            for k, v in r['reach'].items():
                reach[k] = reach.get(k, 0) + v
            for k, v in r['calls'].items():
                calls[k] = calls.get(k, 0) + v
            findings.extend(r['findings'])
            samples.extend(r['samples'])
        res = dict(job=job['name'], harness=job['harness'], defines=job['defines'], parts=len(parts),
                   stats=agg, reach=reach, wall_max_part=max(r['wall'] for r in parts),
                   functions_entered=len(calls), calls=calls)
        if agg['incomplete']:
            msg = '%s: %d states unexplored at the time limit' % (job['name'], agg['incomplete'])
            if self.tier == 'quick':  # the thorough tier is time-boxed: what was not reached is reported, not an error
                self.errors.append(msg)
            res['incomplete_note'] = msg
        for tag, need in job.get('require_tags', {'end': 1}).items():
            if reach.get(tag, 0) < need:
                self.errors.append('%s: vacuity guard: tag %r reached on %d paths (< %d)' % (
                    job['name'], tag, reach.get(tag, 0), need))
        # findings: replay natively
        validated = 0
        nb = None
        seen_keys = {}
        for f in findings:
            key = (f['kind'], re.sub(r'%\d+', '%', f['msg']))
            seen_keys[key] = seen_keys.get(key, 0) + 1
            if seen_keys[key] > 2:
                continue
            if f['kind'] in ('limit', 'unknown'):
                if not job.get('allow_inconclusive'):
                    self.errors.append('%s: inconclusive path: %s' % (job['name'], f['msg']))
                continue
            if f['model'] is None:
                self.errors.append('%s: finding without model: %s' % (job['name'], f['msg']))
                continue
            nb = nb or self._native_bin(job, libn)
            nr = native_run(nb, f['model'], self.scratch)
            self._classify(job, f, nr)
        # translation validation of sampled paths
        mism = 0
        nsamp = job.get('validate', 12)
        step = max(1, len(samples) // nsamp) if nsamp else 1
        for s in samples[::step][:nsamp]:
            nb = nb or self._native_bin(job, libn)
            nr = native_run(nb, s['model'], self.scratch)
            if nr['assume_fail'] or nr['reach'] != s['reached'] or nr['fails'] or nr['san']:
                mism += 1
                self.errors.append('%s: native run disagrees with symbolic path: model=%s predicted=%s native=%s '
                                   'fails=%s san=%s' % (job['name'], s['model'], s['reached'], nr['reach'],
                                                        nr['fails'], nr['san']))
            else:
                validated += 1
        res['validated'] = validated
        res['samples'] = samples[:3]
        # vacuity twin
        if twin is not None:
            tw = twin[0]
            ok = False
            for f in tw['findings']:
                if f['kind'] == 'assert' and f['msg'] == 'vacuity-twin' and f['model'] is not None:
                    nbt = self._native_bin(job, libn, twin=True)
                    nr = native_run(nbt, f['model'], self.scratch)
                    if 'vacuity-twin' in nr['fails']:
                        ok = True
                        break
            res['twin_refuted'] = ok
            if not ok:
                self.errors.append('%s: vacuity twin was not refuted (err=%s findings=%s)' % (
                    job['name'], tw['err'], [(f['kind'], f['msg']) for f in tw['findings']][:4]))
        self.results.append(res)

    def _classify(self, job, f, nr):
        reproduced = False
        if f['kind'] == 'assert':
            reproduced = f['msg'] in nr['fails'] or nr['san'] is not None
        elif f['kind'] == 'hang':
            reproduced = nr['rc'] == -9
        elif f['kind'] in ('mem', 'uninit', 'abort', 'ub'):
            reproduced = nr['san'] is not None
            if not reproduced and job.get('trust_mem'):
                reproduced = True
        if f['kind'] == 'uninit' and not reproduced:
            # reads of never-written memory inside an allocation are invisible to ASan: replay under MSan
            if self._libm is None:
                self._libm = cbuild.build_lib_native(self.scratch, msan=True)
            if '_msanbin' not in job:
                job['_msanbin'] = cbuild.link_harness_msan(self.scratch, self._libm, os.path.join(VERIF, 'harness', job['harness']),
                                                           job['defines'], job['entry'], job['tag'])
            nr = native_run(job['_msanbin'], f['model'], self.scratch)
            reproduced = nr['san'] is not None and 'MemorySanitizer' in nr['san']
        desc = dict(job=job['name'], harness=job['harness'], defines=job['defines'], kind=f['kind'], msg=f['msg'],
                    where=f['where'], model=f['model'], native=dict(fails=nr['fails'], san=nr['san'], reach=nr['reach']))
        if not reproduced:
            if f['kind'] == 'uninit' and not nr['san']:
                # reads of uninitialised memory are not visible to ASan: reported separately, never as a violation
                self.errors.append('%s: engine reports %s (%s) which native replay cannot confirm' % (
                    job['name'], f['kind'], f['msg']))
                return
            self.errors.append('%s: counterexample did not reproduce natively: %s %s model=%s native=%s' % (
                job['name'], f['kind'], f['msg'], f['model'], nr))
            return
        k = match_known(self.kf, desc)
        if k is not None:
            self.known.append((k, desc))
        else:
            self.violations.append(desc)

    # ---- finish --------------------------------------------------------------
    def finish(self, level, coverage_extra, assumptions, seed=0):
        os.makedirs(os.path.join(OUTDIR, 'evidence'), exist_ok=True)
        seen = set()
        for k, desc in self.known:
            if k['id'] not in seen:
                seen.add(k['id'])
                print('KNOWN-FINDING: property=%s %s' % (self.pid, k['what']))
        paths = []
        if self.violations:
            os.makedirs(self.replay_dir, exist_ok=True)
        for i, v in enumerate(self.violations[:20]):
            p = os.path.join(self.replay_dir, '%s_%d.json' % (self.tier, i))
            with open(p, 'w') as fh:
                json.dump(v, fh, indent=1, default=str)
            paths.append(p)
            print('VIOLATION property=%s replay=%s' % (self.pid, p))
            print('  ', v.get('kind'), v.get('msg'), 'job=%s' % v.get('job'), 'model=%s' % json.dumps(v.get('model'), default=str)[:600])
        for e in self.errors[:30]:
            print('HARNESS-ERROR:', e[:1500])
        cov = dict(coverage_extra)
        ev = dict(property_id=self.pid, tier=self.tier, seed=seed, level=level, coverage=cov,
                  assumptions=assumptions, wall_s=round(time.time() - self.t0, 2), violations=len(self.violations),
                  known_findings=sorted(seen), harness_errors=self.errors[:30])
        with open(os.path.join(OUTDIR, 'evidence', self.pid + '.json'), 'w') as fh:
            json.dump(ev, fh, indent=1, default=str)
        self.cleanup()
        if self.violations:
            return 1
        if self.errors:
            return 3
        return 0

    def c_coverage(self, bounds, outside):
        """model_checking coverage block from the collected C-engine results."""
        tot = dict(paths=0, forks=0, queries=0, qtime=0.0, instrs=0, validated=0)
        jobs = []
        funcs = {}
        samples = []
        for r in self.results:
            s = r['stats']
            tot['paths'] += s['paths']
            tot['forks'] += s['forks']
            tot['queries'] += s['queries']
            tot['qtime'] += s['qtime']
            tot['instrs'] += s['instrs']
            tot['validated'] += r.get('validated', 0)
            for k, v in r['calls'].items():
                funcs[k] = funcs.get(k, 0) + v
            jobs.append(dict(job=r['job'], harness=r['harness'], defines=r['defines'], parts=r['parts'],
                             paths=s['paths'], forks=s['forks'], queries=s['queries'], solver_s=round(s['qtime'], 2),
                             instructions=s['instrs'], incomplete=s['incomplete'], inconclusive=s['inconclusive'],
                             cvc5_fallback=dict(queries=s.get('cvc5_queries', 0), unsat=s.get('cvc5_unsat', 0), sat=s.get('cvc5_sat', 0),
                                                unknown=s.get('cvc5_unknown', 0), seconds=round(s.get('cvc5_time', 0), 2)),
                             reach=r['reach'], twin_refuted=r.get('twin_refuted'), validated=r.get('validated', 0)))
            samples.extend(r['samples'][:2])
        lib = sorted((k for k in funcs if not k.startswith('@main_') and not k.startswith('@h_')),
                     key=lambda k: -funcs[k])
        return dict(states=tot['paths'], transitions=max(tot['forks'], 1), traces_validated_against_impl=tot['validated'],
                    samples=samples[:8] or [{}], queries_discharged=tot['queries'], solver_seconds=round(tot['qtime'], 2),
                    ir_instructions_interpreted=tot['instrs'], jobs=jobs,
                    functions_encoded=[k.lstrip('@') for k in lib][:120], functions_encoded_count=len(lib),
                    bounds=bounds, outside_claim=outside, stubs=STUBS,
                    exhaustive=all(j['incomplete'] == 0 and j['inconclusive'] == 0 for j in jobs),
                    encoding='LLVM-14 IR regenerated from %s/c by clang -O0 + mem2reg on this run; interpreted by '
                             'engine/llsym.py over z3 (queries z3 leaves undecided go to cvc5 with bit-vectors solved as integers)' % cbuild.REPO)


def load_known(pid):
    p = os.path.join(VERIF, 'known_findings.json')
    if not os.path.exists(p):
        return []
    with open(p) as fh:
        d = json.load(fh)
    return [k for k in d.get('known', []) if k['property'] == pid]


def match_known(kf, desc):
    for k in kf:
        m = k['match']
        ok = True
        for key, pat in m.items():
            val = desc.get(key)
            if key == 'model':
                ok = ok and all(str((val or {}).get(a)) == str(b) for a, b in pat.items())
            else:
                ok = ok and val is not None and re.search(pat, str(val)) is not None
        if ok:
            return k
    return None
