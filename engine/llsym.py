"""Prototype symbolic executor for LLVM-14 IR (clang -O0 + mem2reg) with z3.

Flat 64-bit address space: object k lives at k<<32.  Memory is byte-granular
with whole-value fast path.  Doubles are python floats or z3 Float64 terms.
"""
import math
import os
import struct
import sys
import time

import z3

from llir import Module, Ty, int_ty, DOUBLE

SH = 32
INTD = True
OFFMASK = (1 << SH) - 1
F64 = z3.Float64()
RNE = z3.RNE()


class PathEnd(Exception):
    pass


class Finding(Exception):
    def __init__(self, kind, msg):
        self.kind = kind
        self.msg = msg


class IntD:
    """A double whose value is exactly the signed 64-bit integer term e (|e| <= bound < 2**52)."""
    __slots__ = ('e', 'bound', 'nz')

    def __init__(self, e, bound, nz=False):
        self.e = e
        self.bound = bound
        self.nz = nz  # zero is -0.0 rather than +0.0


class DBits:
    """An i64 that is the IEEE bit pattern of the IntD d (lazy: materialised only if needed)."""
    __slots__ = ('d',)

    def __init__(self, d):
        self.d = d


def is_sym(v):
    return isinstance(v, (z3.ExprRef, IntD, DBits))


def as_intd(v):
    """IntD view of v if v is an IntD or a concrete integral float (not -0.0), else None."""
    if isinstance(v, IntD):
        return v
    if isinstance(v, float) and v == v and abs(v) < 2 ** 52 and v == int(v) and math.copysign(1, v) > 0 or v == 0 and isinstance(v, float) and math.copysign(1, v) > 0:
        return IntD(z3.BitVecVal(int(v), 64), abs(int(v)))
    if isinstance(v, float) and v == v and abs(v) < 2 ** 52 and v == int(v) and v != 0:
        return IntD(z3.BitVecVal(int(v), 64), abs(int(v)))
    return None


def ite_d(c, a, b):
    ia, ib = as_intd(a), as_intd(b)
    if ia is not None and ib is not None and ia.nz == ib.nz:
        return IntD(z3.If(c, ia.e, ib.e), max(ia.bound, ib.bound), ia.nz)
    return z3.If(c, fp(a), fp(b))


def mask(v, bits):
    return v & ((1 << bits) - 1)


def sgn(v, bits):
    return v - (1 << bits) if v >> (bits - 1) else v


def bv(v, bits):
    if isinstance(v, DBits):
        return z3.fpToIEEEBV(fp(v.d))
    if is_sym(v):
        if z3.is_bool(v):
            return z3.If(v, z3.BitVecVal(1, bits), z3.BitVecVal(0, bits))
        return v
    return z3.BitVecVal(v, bits)


def fp(v):
    if isinstance(v, IntD):
        if v.nz:
            return z3.If(v.e == 0, z3.FPVal(-0.0, F64), z3.fpSignedToFP(RNE, v.e, F64))
        return z3.fpSignedToFP(RNE, v.e, F64)
    if is_sym(v):
        return v
    if v != v:
        return z3.fpNaN(F64)
    if v == math.inf:
        return z3.fpPlusInfinity(F64)
    if v == -math.inf:
        return z3.fpMinusInfinity(F64)
    return z3.FPVal(v, F64)


def boolv(v):
    if is_sym(v):
        if z3.is_bool(v):
            return v
        return v != 0
    return z3.BoolVal(bool(v))


_ZERO = (0, 1, 'i')


class Obj:
    __slots__ = ('size', 'data', 'shared', 'name', 'freed', 'ro', 'zfill')

    def __init__(self, size, name):
        self.size = size
        self.data = {}
        self.shared = False
        self.name = name
        self.freed = False
        self.ro = False
        self.zfill = False  # bytes never written read as zero (calloc)

    def copy(self):
        o = Obj(self.size, self.name)
        o.data = dict(self.data)
        o.freed = self.freed
        o.ro = self.ro
        o.zfill = self.zfill
        return o


class Frame:
    __slots__ = ('fn', 'lab', 'blk', 'i', 'regs', 'prev', 'allocas', 'dst')

    def __init__(self, fn, dst):
        self.fn = fn
        self.lab = fn.entry
        self.blk = fn.blocks[fn.entry]
        self.i = 0
        self.regs = {}
        self.prev = None
        self.allocas = []
        self.dst = dst

    def copy(self):
        f = Frame.__new__(Frame)
        f.fn = self.fn
        f.lab = self.lab
        f.blk = self.blk
        f.i = self.i
        f.regs = dict(self.regs)
        f.prev = self.prev
        f.allocas = list(self.allocas)
        f.dst = self.dst
        return f


class State:
    def __init__(self):
        self.frames = []
        self.objs = {}
        self.nobj = 1
        self.pc = []
        self.model = None
        self.syms = {}
        self.reached = []
        self.steps = 0
        self.known = {}
        self.trace = None
        self.files = {}
        self.nalloc = 0
        self.fail_at = -1

    def clone(self):
        s = State.__new__(State)
        s.frames = [f.copy() for f in self.frames]
        for o in self.objs.values():
            o.shared = True
        s.objs = dict(self.objs)
        s.nobj = self.nobj
        s.pc = list(self.pc)
        s.model = self.model
        s.syms = dict(self.syms)
        s.reached = list(self.reached)
        s.steps = self.steps
        s.known = dict(self.known)
        s.files = {k: dict(v) for k, v in self.files.items()}
        s.trace = self.trace
        s.nalloc = self.nalloc
        s.fail_at = self.fail_at
        return s

    def alloc(self, size, name):
        k = self.nobj
        self.nobj += 1
        self.objs[k] = Obj(size, name)
        return k << SH

    def wobj(self, k):
        o = self.objs[k]
        if o.shared:
            o = o.copy()
            self.objs[k] = o
        return o


class Executor:
    def __init__(self, mod, verbose=False, replay=None):
        self.m = mod
        # decisions to follow without consulting the solver (a frontier state handed over by another process)
        self.replay = list(replay) if replay else None
        self.rpos = 0
        self.calls = {}
        self.reach_counts = {}
        self.samples = []
        self.max_samples = 40
        self.sample_every = 1
        self.stop_after_findings = 0
        self._cstr_cache = {}
        self.hang_is_finding = False
        self.no_addr_fork = False
        self.solver = z3.Solver()
        self.solver.set('timeout', int(os.environ.get('LLSYM_Z3_TIMEOUT_MS', '30000')))
        self.sstack = []  # constraints currently pushed
        self.gaddr = {}
        self.faddr = {}
        self.fbyaddr = {}
        self.stats = dict(paths=0, queries=0, qtime=0.0, instrs=0, forks=0, findings=0)
        self.findings = []
        self.completed = []
        self.verbose = verbose
        self.init_state = State()
        self.symcount = 0
        self._keep = []  # keep ASTs alive so that ids stay unique
        self.max_ite = 64
        self._init_globals()

    # ---- globals ------------------------------------------------------
    def _init_globals(self):
        st = self.init_state
        for name, f in self.m.funcs.items():
            a = st.alloc(1, 'fn:' + name)
            self.faddr[name] = a
            self.fbyaddr[a] = f
        for name, (ty, init, const) in self.m.globals.items():
            self.gaddr[name] = st.alloc(max(ty.size(), 1), name)
        for name, (ty, init, const) in self.m.globals.items():
            if init is not None:
                self._store_const(st, self.gaddr[name], ty, init)
            elif name in ('@stderr', '@stdout', '@stdin'):
                st.objs[self.gaddr[name] >> SH].zfill = True
            if const:
                st.objs[self.gaddr[name] >> SH].ro = True

    def _store_const(self, st, addr, ty, c):
        t = ty.res()
        tag = c[0]
        if tag == 'zero':
            self.mem_set(st, addr, 0, t.size())
        elif tag == 'bytes':
            o = st.wobj(addr >> SH)
            off = addr & OFFMASK
            for i, b in enumerate(c[1]):
                o.data[off + i] = ((b, 1, 'i'), 0)
        elif tag == 'agg':
            if t.k == 'array':
                es = t.elem.size()
                for i, (et, ev) in enumerate(c[1]):
                    self._store_const(st, addr + i * es, et, ev)
            else:
                offs = t.offsets()
                for i, (et, ev) in enumerate(c[1]):
                    self._store_const(st, addr + offs[i], et, ev)
        elif tag == 'undef':
            pass
        else:
            v = self.const(c)
            self.store(st, addr, ty, v)

    def const(self, c):
        tag = c[0]
        if tag == 'c':
            return c[1]
        if tag == 'g':
            n = c[1]
            if n in self.gaddr:
                return self.gaddr[n]
            return self.faddr[n]
        if tag == 'cgep':
            base = self.const(c[2])
            return self.gep(c[1], base, [(t, self.const(v)) for t, v in c[3]])
        if tag == 'ccast':
            return self.const(c[3])
        if tag == 'zero':
            return 0
        if tag == 'undef':
            return 0
        raise NotImplementedError(c)

    # ---- solver ---------------------------------------------------------
    def sync(self, st):
        pc = st.pc
        ss = self.sstack
        n = 0
        m = min(len(pc), len(ss))
        while n < m and pc[n] is ss[n]:
            n += 1
        while len(ss) > n:
            self.solver.pop()
            ss.pop()
        for c in pc[n:]:
            self.solver.push()
            self.solver.add(c)
            ss.append(c)

    def check(self, st, extra=None):
        """Returns model or None."""
        self.sync(st)
        t0 = time.time()
        self.stats['queries'] += 1
        if extra is not None:
            self.solver.push()
            self.solver.add(extra)
        r = self.solver.check()
        mdl = None
        if r == z3.sat:
            mdl = self.solver.model()
        elif r == z3.unknown:
            # second back end: cvc5 on the same assertions with bit-vectors solved as integers (decides the
            # multiply/divide kernels that bit-blasting does not finish); a sat answer is turned back into a z3 model
            r2, vals = self.cvc5_fallback(self.solver.to_smt2())
            if r2 == 'sat':
                self.solver.push()
                for (nm, w), v in vals.items():
                    self.solver.add(z3.BitVec(nm, w) == z3.BitVecVal(v, w))
                r3 = self.solver.check()
                if r3 == z3.sat:
                    mdl = self.solver.model()
                self.solver.pop()
                if r3 != z3.sat:
                    r2 = 'unknown'
            if r2 == 'unknown':
                if extra is not None:
                    self.solver.pop()
                raise Finding('unknown', 'solver returned unknown')
        if extra is not None:
            self.solver.pop()
        dt = time.time() - t0
        self.stats['qtime'] += dt
        b = 0 if dt < 0.001 else 1 if dt < 0.005 else 2 if dt < 0.02 else 3 if dt < 0.1 else 4
        self.stats.setdefault('qhist', [0, 0, 0, 0, 0])[b] += 1
        self.stats.setdefault('qhist_t', [0, 0, 0, 0, 0])[b] += dt
        self.stats['maxpc'] = max(self.stats.get('maxpc', 0), len(st.pc))
        if dt > 0.5 and self.verbose:
            txt = self.solver.sexpr()
            print('SLOW %.2fs' % dt, 'fp' if 'fp.' in txt or 'to_fp' in txt else 'nofp', len(txt), 'extra:', str(extra)[:300], self.where(st))
        return mdl

    def cvc5_fallback(self, smt2):
        t0 = time.time()
        self.stats['cvc5_queries'] = self.stats.get('cvc5_queries', 0) + 1
        res, vals = 'unknown', {}
        try:
            import cvc5
            slv = cvc5.Solver()
            slv.setOption('solve-bv-as-int', 'sum')
            slv.setOption('produce-models', 'true')
            slv.setOption('tlimit-per', os.environ.get('LLSYM_CVC5_TIMEOUT_MS', '120000'))
            slv.setLogic('ALL')
            ip = cvc5.InputParser(slv)
            ip.setStringInput(cvc5.InputLanguage.SMT_LIB_2_6, smt2, 'q')
            sm = ip.getSymbolManager()
            out = ''
            while True:
                c = ip.nextCommand()
                if c.isNull():
                    break
                o = c.invoke(slv, sm)
                if o.strip():
                    out = o.strip()
            if out == 'unsat':
                res = 'unsat'
            elif out == 'sat':
                res = 'sat'
                for t in sm.getDeclaredTerms():
                    so = t.getSort()
                    if not so.isBitVector():
                        raise RuntimeError('non-bit-vector constant in cvc5 model')
                    v = slv.getValue(t)
                    vals[(str(t), so.getBitVectorSize())] = int(v.getBitVectorValue(10))
        except Exception as e:  # any cvc5 trouble leaves the query undecided
            if self.verbose:
                print('cvc5 fallback failed:', type(e).__name__, str(e)[:200])
            res, vals = 'unknown', {}
        dt = time.time() - t0
        self.stats['cvc5_time'] = self.stats.get('cvc5_time', 0) + dt
        self.stats['cvc5_' + res] = self.stats.get('cvc5_' + res, 0) + 1
        if self.verbose:
            print('cvc5 fallback: %s in %.1fs' % (res, dt))
        return res, vals

    def model_true(self, st, c):
        if st.model is None:
            st.model = self.check(st)
            if st.model is None:
                raise PathEnd()
        v = st.model.eval(c, model_completion=True)
        return z3.is_true(v)

    def add_constraint(self, st, c):
        st.pc.append(c)

    def next_decision(self):
        d = self.replay[self.rpos]
        self.rpos += 1
        if self.rpos == len(self.replay):
            self.replay = None
        return d

    def branch(self, st, c):
        """c: z3 Bool. Returns list of (state, bool_taken)."""
        c = z3.simplify(c)
        if z3.is_true(c):
            return [(st, True)]
        if z3.is_false(c):
            return [(st, False)]
        known = st.known
        kid = c.get_id()
        kv = known.get(kid)
        if kv is not None:
            self.stats['cache_hits'] = self.stats.get('cache_hits', 0) + 1
            return [(st, kv)]
        self._keep.append(c)
        if self.replay is not None:
            d = bool(self.next_decision())
            st.pc.append(c if d else z3.Not(c))
            st.model = None
            known[kid] = d
            st.trace = (st.trace, int(d))
            return [(st, d)]
        mt = self.model_true(st, c)
        other = z3.Not(c) if mt else c
        m2 = self.check(st, other)
        base = st.trace
        if m2 is None:
            # only model side feasible; no need to add constraint (implied)
            known[kid] = mt
            st.trace = (base, int(mt))
            return [(st, mt)]
        s2 = st.clone()
        self.stats['forks'] += 1
        st.pc.append(c if mt else z3.Not(c))
        s2.pc.append(other)
        s2.model = m2
        st.known[kid] = mt
        s2.known[kid] = not mt
        st.trace = (base, int(mt))
        s2.trace = (base, int(not mt))
        return [(st, mt), (s2, not mt)]

    # ---- memory ---------------------------------------------------------
    def resolve(self, st, addr, n, write=False):
        """Concrete addr -> (obj, off) with checks."""
        k = addr >> SH
        off = addr & OFFMASK
        o = st.objs.get(k)
        if o is None:
            raise Finding('mem', 'access to invalid address %#x' % addr)
        if o.freed:
            raise Finding('mem', 'use after free of %s' % o.name)
        if off + n > o.size:
            raise Finding('mem', 'out-of-bounds %s of %d bytes at offset %d of %s (size %d)' % (
                'write' if write else 'read', n, off, o.name, o.size))
        if write:
            if o.ro:
                raise Finding('mem', 'write to read-only ' + o.name)
            o = st.wobj(k)
        return o, off

    @staticmethod
    def init_runs(o, n):
        """Maximal runs [a,b) of initialised bytes of o that can hold an n-byte access."""
        if o.zfill:
            return [(0, o.size)]
        runs = []
        a = b = None
        for off in sorted(o.data):
            if b is not None and off == b:
                b += 1
            else:
                if b is not None and b - a >= n:
                    runs.append((a, b))
                a, b = off, off + 1
        if b is not None and b - a >= n:
            runs.append((a, b))
        return runs

    def sym_addr_candidates(self, st, addr, n, write):
        """For a symbolic address: proves that it stays inside the (initialised part of the) one object the
        current model points into, reporting a finding and constraining the path otherwise.  Returns the list
        of aligned candidate addresses when that list is short, else None (callers then enumerate by solver)."""
        addr = z3.simplify(addr)
        if z3.is_bv_value(addr):
            return [addr.as_long()]
        if st.model is None:
            st.model = self.check(st)
        a0 = st.model.eval(addr, model_completion=True).as_long()
        k = a0 >> SH
        o = st.objs.get(k)
        if o is None or o.freed:
            raise Finding('mem', 'symbolic pointer may be invalid: %#x' % a0)
        base = k << SH
        runs = [(0, o.size)] if write else self.init_runs(o, n)
        runs = [(a, b) for a, b in runs if b - a >= n]
        B = lambda x: z3.BitVecVal(base + x, 64)
        valid = z3.Or([z3.And(z3.UGE(addr, B(a)), z3.ULE(addr, B(b - n))) for a, b in runs]) if runs else z3.BoolVal(False)
        outside = z3.Not(valid)
        mdl = self.check(st, outside)
        if mdl is not None:
            a1 = mdl.eval(addr, model_completion=True).as_long()
            k1, off1 = a1 >> SH, a1 & OFFMASK
            o1 = st.objs.get(k1)
            s2 = st.clone()
            s2.pc.append(outside)
            if not (o1 is None or o1.freed or off1 + n > o1.size):
                # the model points at never-written bytes inside an object; prefer a model that leaves the object
                # altogether (visible to ASan) when one exists
                oob = z3.Or(z3.ULT(addr, B(0)), z3.UGT(addr, B(o.size - n)))
                m3 = self.check(st, oob)
                if m3 is not None:
                    mdl = m3
                    s2.pc.append(oob)
                    a1 = m3.eval(addr, model_completion=True).as_long()
                    o1 = st.objs.get(a1 >> SH)
                    off1 = a1 & OFFMASK
                    if o1 is not None and not o1.freed and off1 + n <= o1.size:
                        o1 = None  # lands in another object: still out of bounds of the intended one
            if o1 is None or o1.freed or off1 + n > o1.size:
                self.report(s2, 'mem', 'out-of-bounds symbolic %s in %s (obj %s size %s)' % (
                    'write' if write else 'read', self.where(st), o1.name if o1 else None, o1.size if o1 else None), mdl)
            else:
                self.report(s2, 'uninit', 'symbolic %s in %s may touch uninitialised bytes of %s' % (
                    'write' if write else 'read', self.where(st), o1.name), mdl)
            # continue under the complementary (access is valid) constraint
            if not runs:
                raise PathEnd('memfinding')
            st.pc.append(valid)
            st.model = self.check(st)
            if st.model is None:
                raise PathEnd('memfinding')
        total = sum((b - n - a) // n + 1 for a, b in runs)
        if total > 4 * self.max_ite:
            return None
        return [base + off for a, b in runs for off in range(a, b - n + 1, n)]

    def _split(self, o, off):
        """Break the value covering byte `off` into independent bytes."""
        e = o.data.get(off)
        if e is None:
            return
        vo, idx = e
        val, nb, kind = vo
        if nb == 1:
            return
        start = off - idx
        bs = self.to_bytes(val, nb, kind)
        for i in range(nb):
            cur = o.data.get(start + i)
            if cur is not None and cur[0] is vo:
                o.data[start + i] = ((bs[i], 1, 'i'), 0)

    def to_bytes(self, val, nb, kind):
        if isinstance(val, DBits):
            val = bv(val, 64)
        if kind == 'f':
            if is_sym(val):
                val = z3.fpToIEEEBV(fp(val))
            else:
                val = struct.unpack('<Q', struct.pack('<d', val))[0]
        if is_sym(val):
            if z3.is_bool(val):
                val = bv(val, 8)
            return [z3.simplify(z3.Extract(8 * i + 7, 8 * i, val)) for i in range(nb)]
        return [(val >> (8 * i)) & 0xff for i in range(nb)]

    def from_bytes(self, bs, kind):
        nb = len(bs)
        if any(is_sym(b) for b in bs):
            v = z3.simplify(z3.Concat([bv(b, 8) for b in reversed(bs)])) if nb > 1 else bs[0]
            if kind == 'f':
                v = z3.fpBVToFP(v, F64)
            return v
        v = 0
        for i, b in enumerate(bs):
            v |= b << (8 * i)
        if kind == 'f':
            v = struct.unpack('<d', struct.pack('<Q', v))[0]
        return v

    def store_c(self, st, addr, n, kind, v):
        o, off = self.resolve(st, addr, n, True)
        d = o.data
        e = d.get(off)
        if e is not None and e[1] > 0:
            self._split(o, off)
        e = d.get(off + n - 1)
        if e is not None and e[1] < e[0][1] - 1:
            self._split(o, off + n - 1)
        vo = (v, n, kind)
        for i in range(n):
            d[off + i] = (vo, i)

    def load_c(self, st, addr, n, kind):
        o, off = self.resolve(st, addr, n)
        d = o.data
        e = d.get(off)
        if e is not None and e[1] == 0 and e[0][1] == n:
            val, nb, k2 = e[0]
            if k2 == kind:
                return val
            if isinstance(val, IntD) and kind == 'i':
                return DBits(val)
            if isinstance(val, DBits) and kind == 'f':
                return val.d
            return self.from_bytes(self.to_bytes(val, nb, k2), kind)
        bs = []
        for i in range(n):
            e = d.get(off + i)
            if e is None:
                if o.zfill:
                    bs.append(0)
                    continue
                raise Finding('uninit', 'read of uninitialised byte %d of %s' % (off + i, o.name))
            val, nb, k2 = e[0]
            if nb == 1 and k2 == 'i':
                bs.append(val)
            else:
                bs.append(self.to_bytes(val, nb, k2)[e[1]])
        return self.from_bytes(bs, kind)

    @staticmethod
    def kind_of(ty):
        t = ty.res()
        if t.k == 'double':
            return 'f', 8
        if t.k == 'float':
            raise NotImplementedError('float')
        if t.k == 'int':
            return 'i', t.size()
        if t.k in ('ptr', 'func'):
            return 'i', 8
        raise NotImplementedError('load/store of %r' % t)

    def load(self, st, addr, ty):
        kind, n = self.kind_of(ty)
        if is_sym(addr):
            cands = self.sym_addr_candidates(st, addr, n, False)
            if cands is None:
                raise Finding('limit', 'symbolic address with too many candidate cells')
            if len(cands) == 1:
                v = self.load_c(st, cands[0], n, kind)
            else:
                vals = [self.load_c(st, c, n, kind) for c in cands]
                v = vals[-1]
                for c, x in zip(reversed(cands[:-1]), reversed(vals[:-1])):
                    if kind == 'f':
                        v = ite_d(addr == c, x, v)
                    else:
                        v = z3.If(addr == c, bv(x, 8 * n), bv(v, 8 * n))
        else:
            v = self.load_c(st, addr, n, kind)
        t = ty.res()
        if t.k == 'int' and t.bits == 1 and not is_sym(v):
            v &= 1
        return v

    def store(self, st, addr, ty, v):
        kind, n = self.kind_of(ty)
        t = ty.res()
        if t.k == 'int' and t.bits == 1 and is_sym(v):
            v = bv(v, 8)
        if is_sym(addr):
            cands = self.sym_addr_candidates(st, addr, n, True)
            if cands is None:
                raise Finding('limit', 'symbolic address with too many candidate cells')
            if len(cands) == 1:
                self.store_c(st, cands[0], n, kind, v)
                return
            for c in cands:
                try:
                    old = self.load_c(st, c, n, kind)
                except Finding:
                    old = v
                if kind == 'f':
                    nv = ite_d(addr == c, v, old)
                else:
                    nv = z3.If(addr == c, bv(v, 8 * n), bv(old, 8 * n))
                self.store_c(st, c, n, kind, nv)
        else:
            self.store_c(st, addr, n, kind, v)

    def concretize(self, st, v, what, limit=16):
        """Fork-free concretisation: returns the single feasible value or forks lazily.
        Here: enumerate feasible values, return list."""
        if not is_sym(v):
            return [v]
        v = z3.simplify(v)
        if z3.is_bv_value(v):
            return [v.as_long()]
        out = []
        excl = []
        while True:
            mdl = self.check(st, z3.And(excl) if excl else None)
            if mdl is None:
                break
            x = mdl.eval(v, model_completion=True).as_long()
            out.append(x)
            excl.append(v != x)
            if len(out) > limit:
                raise Finding('limit', 'too many values for ' + what)
        return out

    def fork_values(self, st, v, what, limit=64):
        """All feasible concrete values of v, one successor state each: [(state, value)]."""
        if not is_sym(v):
            return [(st, v)]
        v = z3.simplify(bv(v, v.size()) if not isinstance(v, DBits) else bv(v, 64))
        if z3.is_bv_value(v):
            return [(st, v.as_long())]
        if self.replay is not None:
            k = self.next_decision()
            st.pc.append(v == k)
            st.model = None
            st.trace = (st.trace, k)
            return [(st, k)]
        vals = sorted(self.concretize(st, v, what, limit))
        if not vals:
            raise PathEnd()
        out = []
        base = st.trace
        for i, k in enumerate(vals):
            s2 = st.clone() if i < len(vals) - 1 else st
            s2.pc.append(v == k)
            s2.model = None
            s2.trace = (base, k)
            out.append((s2, k))
        self.stats['forks'] += len(vals) - 1
        return out

    FORK_ADDR_LIMIT = 24

    def sym_mem(self, st, ins, addr, stored):
        """load/store through a symbolic address: after the bounds/initialisation check, fork over the feasible
        concrete addresses (formulas stay small); with too many candidates fall back to ite over the cells.
        Returns None if `st` simply continues, else the list of successor states."""
        if not is_sym(addr):
            addr = int(addr)
        kind, n = self.kind_of(ins.ty)
        cands = ()
        if is_sym(addr):
            cands = self.sym_addr_candidates(st, addr, n, stored is not None)
        if not is_sym(addr) or self.no_addr_fork:
            if stored is None:
                st.frames[-1].regs[ins.dst] = self.load(st, addr, ins.ty)
            else:
                self.store(st, addr, ins.ty, stored[0])
            return None
        try:
            pairs = self.fork_values(st, addr, 'address', limit=self.FORK_ADDR_LIMIT + 1)
        except Finding as f:
            if f.kind != 'limit' or cands is None:
                raise
            # too many feasible addresses: ite over the aligned cells instead
            if stored is None:
                st.frames[-1].regs[ins.dst] = self.load(st, addr, ins.ty)
            else:
                self.store(st, addr, ins.ty, stored[0])
            return None
        out = []
        for s2, av in pairs:
            try:
                if stored is None:
                    s2.frames[-1].regs[ins.dst] = self.load(s2, av, ins.ty)
                else:
                    self.store(s2, av, ins.ty, stored[0])
            except Finding as f:
                if self.replay is not None:
                    raise
                self.stats['paths'] += 1
                try:
                    mdl = self.check(s2)
                except Finding:
                    mdl = None
                self.report(s2, f.kind, f.msg, mdl)
                continue
            out.append(s2)
        if len(out) == 1 and out[0] is st:
            return None
        if not out:
            raise PathEnd('pruned')
        return out

    def fork_call(self, st, ins, args, idxs, body, limit=64):
        """Concretise args[i] for i in idxs by forking, then run body(state, args) in every successor.
        Returns the list of successor states (result register set)."""
        combos = [(st, list(args))]
        for i in idxs:
            nxt = []
            for s_, a_ in combos:
                for s2, val in self.fork_values(s_, a_[i], 'argument %d of %s' % (i, ins.a[1] if ins.a[0] == 'g' else '?'), limit):
                    a2 = list(a_)
                    a2[i] = val
                    nxt.append((s2, a2))
            combos = nxt
        out = []
        for s2, a2 in combos:
            try:
                r = body(s2, a2)
            except Finding as f:
                if self.replay is not None:
                    raise
                self.stats['paths'] += 1
                try:
                    mdl = self.check(s2)
                except Finding:
                    mdl = None
                self.report(s2, f.kind, f.msg, mdl)
                if f.kind in ('limit', 'unknown'):
                    self.stats['inconclusive'] = self.stats.get('inconclusive', 0) + 1
                continue
            if isinstance(r, list):
                out.extend(r)
                continue
            if ins.dst is not None:
                s2.frames[-1].regs[ins.dst] = r
            out.append(s2)
        if not out:
            raise PathEnd('pruned')
        return out

    def mem_copy(self, st, dst, src, n):
        if n == 0:
            return
        so, soff = self.resolve(st, src, n)
        entries = [so.data.get(soff + i) for i in range(n)]
        # split partial values at the borders of the source
        if entries[0] is not None and entries[0][1] > 0 or entries[-1] is not None and entries[-1][1] < entries[-1][0][1] - 1:
            so = st.wobj(src >> SH)
            self._split(so, soff)
            self._split(so, soff + n - 1)
            entries = [so.data.get(soff + i) for i in range(n)]
        do, doff = self.resolve(st, dst, n, True)
        d = do.data
        e = d.get(doff)
        if e is not None and e[1] > 0:
            self._split(do, doff)
        e = d.get(doff + n - 1)
        if e is not None and e[1] < e[0][1] - 1:
            self._split(do, doff + n - 1)
        zsrc = so.zfill
        for i, e in enumerate(entries):
            if e is None:
                if zsrc:
                    d[doff + i] = (_ZERO, 0)
                else:
                    d.pop(doff + i, None)
            else:
                d[doff + i] = e

    def mem_set(self, st, addr, b, n):
        if n == 0:
            return
        o, off = self.resolve(st, addr, n, True)
        d = o.data
        e = d.get(off)
        if e is not None and e[1] > 0:
            self._split(o, off)
        e = d.get(off + n - 1)
        if e is not None and e[1] < e[0][1] - 1:
            self._split(o, off + n - 1)
        if not is_sym(b):
            b &= 0xff
            # use 8/4-byte values when aligned, so later typed loads hit the fast path
            i = 0
            v8 = (int.from_bytes(bytes([b]) * 8, 'little'), 8, 'i')
            v4 = (int.from_bytes(bytes([b]) * 4, 'little'), 4, 'i')
            v1 = (b, 1, 'i')
            # we don't know the element type: store as bytes but tagged lazily -> simple bytes
            for i in range(n):
                d[off + i] = (v1, 0)
        else:
            v1 = (b, 1, 'i')
            for i in range(n):
                d[off + i] = (v1, 0)

    # ---- GEP ------------------------------------------------------------
    def gep(self, sty, base, idx):
        addr = base
        ty = sty
        first = True
        for it, iv in idx:
            if first:
                sz = ty.size()
                first = False
            else:
                t = ty.res()
                if t.k == 'struct':
                    addr = self.add64(addr, t.offsets()[iv])
                    ty = t.fields[iv]
                    continue
                ty = t.elem
                sz = ty.size()
            bits = it.res().bits
            if is_sym(iv):
                if bits < 64:
                    iv = z3.SignExt(64 - bits, iv)
                addr = bv(addr, 64) + iv * sz
            else:
                addr = self.add64(addr, sgn(iv, bits) * sz)
        return addr

    @staticmethod
    def add64(a, b):
        if is_sym(a):
            return a + b
        return (a + b) & 0xffffffffffffffff

    # ---- evaluation -------------------------------------------------------
    def val(self, fr, o):
        tag = o[0]
        if tag == 'r':
            return fr.regs[o[1]]
        if tag == 'c':
            return o[1]
        return self.const(o)

    def binop(self, op, bits, a, b):
        if not is_sym(a) and not is_sym(b):
            M = (1 << bits) - 1
            if op == 'add':
                return (a + b) & M
            if op == 'sub':
                return (a - b) & M
            if op == 'mul':
                return (a * b) & M
            if op == 'and':
                return a & b
            if op == 'or':
                return a | b
            if op == 'xor':
                return a ^ b
            if op == 'shl':
                return (a << b) & M if b < bits else 0
            if op == 'lshr':
                return a >> b if b < bits else 0
            if op == 'ashr':
                return (sgn(a, bits) >> min(b, bits - 1)) & M
            if op in ('udiv', 'urem', 'sdiv', 'srem'):
                if b == 0:
                    raise Finding('ub', 'division by zero')
                if op == 'udiv':
                    return a // b
                if op == 'urem':
                    return a % b
                sa, sb = sgn(a, bits), sgn(b, bits)
                q = abs(sa) // abs(sb)
                if (sa < 0) != (sb < 0):
                    q = -q
                if op == 'sdiv':
                    return q & M
                return (sa - q * sb) & M
            raise NotImplementedError(op)
        if bits == 1:
            a, b = boolv(a), boolv(b)
            if op == 'and':
                return z3.And(a, b)
            if op == 'or':
                return z3.Or(a, b)
            if op == 'xor':
                return z3.Xor(a, b)
            raise NotImplementedError('i1 ' + op)
        a, b = bv(a, bits), bv(b, bits)
        if op == 'add':
            return a + b
        if op == 'sub':
            return a - b
        if op == 'mul':
            return a * b
        if op == 'and':
            return a & b
        if op == 'or':
            return a | b
        if op == 'xor':
            return a ^ b
        if op == 'shl':
            return a << b
        if op == 'lshr':
            return z3.LShR(a, b)
        if op == 'ashr':
            return a >> b
        if op == 'udiv':
            return z3.UDiv(a, b)
        if op == 'urem':
            return z3.URem(a, b)
        if op == 'sdiv':
            return a / b
        if op == 'srem':
            return z3.SRem(a, b)
        raise NotImplementedError(op)

    def icmp(self, pred, bits, a, b):
        if not is_sym(a) and not is_sym(b):
            if pred[0] == 's':
                a, b = sgn(a, bits), sgn(b, bits)
            return int({'eq': a == b, 'ne': a != b, 'ugt': a > b, 'uge': a >= b, 'ult': a < b, 'ule': a <= b,
                        'sgt': a > b, 'sge': a >= b, 'slt': a < b, 'sle': a <= b}[pred])
        if pred in ('eq', 'ne') and (isinstance(a, DBits) or isinstance(b, DBits)):
            x, y = (a, b) if isinstance(a, DBits) else (b, a)
            r = None
            if x.d.nz or (isinstance(y, DBits) and y.d.nz):
                r = None
            elif isinstance(y, DBits):
                r = x.d.e == y.d.e
            elif not is_sym(y):
                dv = struct.unpack('<d', struct.pack('<Q', y))[0]
                iy = as_intd(dv)
                r = z3.BoolVal(False) if iy is None else x.d.e == iy.e
            if r is not None:
                r = z3.simplify(r)
                if z3.is_true(r) or z3.is_false(r):
                    return int(z3.is_true(r)) ^ (pred == 'ne')
                return r if pred == 'eq' else z3.Not(r)
        if bits == 1:
            a, b = boolv(a), boolv(b)
            if pred == 'eq':
                return a == b
            if pred == 'ne':
                return z3.Xor(a, b)
            raise NotImplementedError
        a, b = bv(a, bits), bv(b, bits)
        if pred == 'eq':
            return a == b
        if pred == 'ne':
            return a != b
        if pred == 'ugt':
            return z3.UGT(a, b)
        if pred == 'uge':
            return z3.UGE(a, b)
        if pred == 'ult':
            return z3.ULT(a, b)
        if pred == 'ule':
            return z3.ULE(a, b)
        if pred == 'sgt':
            return a > b
        if pred == 'sge':
            return a >= b
        if pred == 'slt':
            return a < b
        if pred == 'sle':
            return a <= b
        raise NotImplementedError(pred)

    def fcmp(self, pred, a, b):
        if not is_sym(a) and not is_sym(b):
            un = a != a or b != b
            if pred == 'ord':
                return int(not un)
            if pred == 'uno':
                return int(un)
            base = {'eq': a == b, 'ne': a != b, 'gt': a > b, 'ge': a >= b, 'lt': a < b, 'le': a <= b}[pred[1:]]
            if pred[0] == 'o':
                return int(base and not un)
            return int(base or un)
        ia, ib = as_intd(a), as_intd(b)
        if ia is not None and ib is not None:
            if pred == 'ord':
                return 1
            if pred == 'uno':
                return 0
            x, y = ia.e, ib.e
            return {'eq': x == y, 'ne': x != y, 'gt': x > y, 'ge': x >= y, 'lt': x < y, 'le': x <= y}[pred[1:]]
        if (ia is not None and isinstance(b, float)) or (ib is not None and isinstance(a, float)):
            # IntD against a concrete non-integral / special float
            other, isleft = (b, True) if ia is not None else (a, False)
            me = ia if ia is not None else ib
            if other != other:
                r = pred in ('uno', 'ueq', 'une', 'ugt', 'uge', 'ult', 'ule')
                return int(r)
            if pred == 'ord':
                return 1
            if pred == 'uno':
                return 0
            p = pred[1:]
            if not isleft:
                p = {'gt': 'lt', 'ge': 'le', 'lt': 'gt', 'le': 'ge', 'eq': 'eq', 'ne': 'ne'}[p]
            if other == math.inf or other >= 2.0 ** 62:
                return int(p in ('lt', 'le', 'ne'))
            if other == -math.inf or other <= -2.0 ** 62:
                return int(p in ('gt', 'ge', 'ne'))
            fl = math.floor(other)
            x = me.e
            if fl == other:
                y = z3.BitVecVal(int(fl), 64)
                return {'eq': x == y, 'ne': x != y, 'gt': x > y, 'ge': x >= y, 'lt': x < y, 'le': x <= y}[p]
            y = z3.BitVecVal(int(fl), 64)
            return {'eq': 0, 'ne': 1, 'gt': x > y, 'ge': x > y, 'lt': x <= y, 'le': x <= y}[p]
        a, b = fp(a), fp(b)
        un = z3.Or(z3.fpIsNaN(a), z3.fpIsNaN(b))
        if pred == 'ord':
            return z3.Not(un)
        if pred == 'uno':
            return un
        p = pred[1:]
        base = {'eq': z3.fpEQ, 'gt': z3.fpGT, 'ge': z3.fpGEQ, 'lt': z3.fpLT, 'le': z3.fpLEQ}.get(p)
        if p == 'ne':
            r = z3.Not(z3.fpEQ(a, b))
            # one: ordered and not equal
            if pred[0] == 'o':
                return z3.And(z3.Not(un), r)
            return r  # une: unordered or not equal  (Not(fpEQ) is true for NaN)
        r = base(a, b)  # IEEE comparisons are false on NaN => ordered semantics
        if pred[0] == 'o':
            return r
        return z3.Or(un, r)

    def fbin(self, op, a, b):
        if not is_sym(a) and not is_sym(b):
            try:
                if op == 'fadd':
                    return a + b
                if op == 'fsub':
                    return a - b
                if op == 'fmul':
                    return a * b
                if op == 'fdiv':
                    if b == 0:
                        if a != a or a == 0:
                            return math.nan
                        return math.copysign(math.inf, a) * math.copysign(1, b)
                    return a / b
            except OverflowError:
                return math.inf
            raise NotImplementedError(op)
        if op in ('fadd', 'fsub'):
            ia, ib = as_intd(a), as_intd(b)
            if ia is not None and ib is not None and ia.bound + ib.bound < 2 ** 52 and not ia.nz and not ib.nz:
                # exact in binary64; x - x and x + (-x) give +0.0 under RNE, inputs are never -0.0
                return IntD(ia.e + ib.e if op == 'fadd' else ia.e - ib.e, ia.bound + ib.bound)
        if op == 'fmul':
            ia, ib = as_intd(a), as_intd(b)
            if ia is not None and ib is not None and ia.bound * ib.bound < 2 ** 52 and not ia.nz and not ib.nz:
                # the product of two integers below 2**52 in magnitude is exact in binary64; the sign of a zero
                # product is not tracked (0 * negative = -0.0 compares equal to +0.0 and is only observable by bit tests)
                return IntD(ia.e * ib.e, ia.bound * ib.bound)
        if op == 'fdiv' and isinstance(b, float) and b == 1.0 and isinstance(a, IntD):
            return a  # x / 1.0 is x
        a, b = fp(a), fp(b)
        if op == 'fadd':
            return z3.fpAdd(RNE, a, b)
        if op == 'fsub':
            return z3.fpSub(RNE, a, b)
        if op == 'fmul':
            return z3.fpMul(RNE, a, b)
        if op == 'fdiv':
            return z3.fpDiv(RNE, a, b)
        raise NotImplementedError(op)

    def cast(self, op, sty, dty, v):
        s = sty.res()
        d = dty.res()
        if op in ('bitcast', 'inttoptr', 'ptrtoint'):
            if s.k == 'double' and d.k == 'int' and isinstance(v, IntD):
                return DBits(v)
            if s.k == 'int' and d.k == 'double' and isinstance(v, DBits):
                return v.d
            if s.k == 'double' and d.k == 'int':
                return self.from_bytes(self.to_bytes(v, 8, 'f'), 'i')
            if s.k == 'int' and d.k == 'double':
                return self.from_bytes(self.to_bytes(v, 8, 'i'), 'f')
            if op == 'ptrtoint' and d.bits < 64:
                return self.cast('trunc', int_ty(64), dty, v)
            if op == 'inttoptr' and s.bits < 64:
                return self.cast('zext', sty, int_ty(64), v)
            return v
        if op == 'zext':
            if is_sym(v):
                if z3.is_bool(v):
                    return bv(v, d.bits)
                return z3.ZeroExt(d.bits - s.bits, v)
            return v
        if op == 'sext':
            if is_sym(v):
                if z3.is_bool(v):
                    return z3.If(v, z3.BitVecVal(-1, d.bits), z3.BitVecVal(0, d.bits))
                return z3.SignExt(d.bits - s.bits, v)
            return mask(sgn(v, s.bits), d.bits)
        if op == 'trunc':
            if is_sym(v):
                if d.bits == 1:
                    return z3.Extract(0, 0, v) == 1
                return z3.Extract(d.bits - 1, 0, v)
            return mask(v, d.bits)
        if op == 'sitofp':
            if is_sym(v):
                return z3.fpSignedToFP(RNE, bv(v, s.bits), F64)
            return float(sgn(v, s.bits))
        if op == 'uitofp':
            if is_sym(v):
                return z3.fpUnsignedToFP(RNE, bv(v, s.bits), F64)
            return float(v)
        if op in ('fptosi', 'fptoui'):
            if is_sym(v):
                if op == 'fptosi':
                    return z3.fpToSBV(z3.RTZ(), v, z3.BitVecSort(d.bits))
                return z3.fpToUBV(z3.RTZ(), v, z3.BitVecSort(d.bits))
            if v != v or abs(v) == math.inf:
                raise Finding('ub', 'fptoint of non-finite')
            return mask(int(v), d.bits)
        if op in ('fpext', 'fptrunc'):
            return v
        raise NotImplementedError(op)

    # ---- running ------------------------------------------------------
    def call(self, st, fn, args, dst):
        self.calls[fn.name] = self.calls.get(fn.name, 0) + 1
        fr = Frame(fn, dst)
        for (t, nm), a in zip(fn.params, args):
            fr.regs[nm] = a
        st.frames.append(fr)

    def run(self, entry, max_paths=10**9, max_steps=20_000_000, timeout=600, split_target=0, split_time=20):
        """Explore from `entry` (after following self.replay, if any).  With split_target>0 the exploration is
        breadth-first and stops once that many states are pending; the pending states are returned as decision
        traces in self.frontier.  Otherwise depth-first until done or `timeout`, when the pending states are also
        returned in self.frontier (for re-dispatch)."""
        from collections import deque
        st0 = self.init_state.clone()
        self.call(st0, self.m.funcs[entry], [], None)
        work = deque([st0])
        t0 = time.time()
        self.max_steps = max_steps
        self.deadline = t0 + timeout + 30
        self.frontier = []
        while work:
            el = time.time() - t0
            if self.stop_after_findings and self.stats['findings'] >= self.stop_after_findings:
                break
            if self.replay is None and (el > timeout or self.stats['paths'] >= max_paths
                                        or (split_target and (len(work) >= split_target or el > split_time))):
                self.frontier = [self.export_trace(s) for s in work]
                break
            st = work.popleft() if split_target else work.pop()
            try:
                new = self.run_state(st, max_steps)
                work.extend(new)
            except PathEnd as e:
                if self.replay is not None:
                    raise RuntimeError('replayed prefix ended early (engine nondeterminism)')
                if e.args and e.args[0] == 'pruned':
                    continue
                self.stats['paths'] += 1
                self.path_done(st)
            except Finding as f:
                if self.replay is not None:
                    raise RuntimeError('finding while replaying a prefix: %s %s' % (f.kind, f.msg))
                self.stats['paths'] += 1
                mdl = None
                try:
                    mdl = self.check(st)
                except Finding:
                    pass
                self.report(st, f.kind, f.msg, mdl)
                if f.kind in ('limit', 'unknown'):
                    self.stats['inconclusive'] = self.stats.get('inconclusive', 0) + 1
        self.stats['wall'] = time.time() - t0
        return self.stats

    @staticmethod
    def export_trace(st):
        out = []
        t = st.trace
        while t is not None:
            out.append(t[1])
            t = t[0]
        out.reverse()
        return out

    def owned(self, st):
        return self.replay is None

    def report(self, st, kind, msg, mdl):
        if not self.owned(st):
            return
        self.stats['findings'] += 1
        key = (kind, msg)
        self.finding_counts = getattr(self, 'finding_counts', {})
        self.finding_counts[key] = self.finding_counts.get(key, 0) + 1
        if self.finding_counts[key] <= 3:
            self.findings.append(dict(kind=kind, msg=msg, model=self.model_values(st, mdl), where=self.where(st),
                                      reached=list(st.reached)))
        if self.verbose:
            print('FINDING', kind, msg, self.where(st))

    def path_done(self, st):
        key = tuple(st.reached)
        tags = set(key)
        for t in tags:
            self.reach_counts[t] = self.reach_counts.get(t, 0) + 1
        n = self.stats['paths']
        if len(self.samples) < self.max_samples and n % self.sample_every == 0:
            try:
                mdl = st.model if st.model is not None else self.check(st)
            except Finding:
                mdl = None
            if mdl is not None:
                self.samples.append(dict(model=self.model_values(st, mdl), reached=list(key)))
            if len(self.samples) == self.max_samples // 2:
                self.sample_every *= 8

    def where(self, st):
        return ' <- '.join('%s:%s' % (f.fn.name, f.lab) for f in reversed(st.frames[-4:]))

    def model_values(self, st, mdl):
        if mdl is None:
            return None
        out = {}
        for name, (v, kind) in st.syms.items():
            x = mdl.eval(v, model_completion=True)
            if kind == 'f':
                bits = mdl.eval(z3.fpToIEEEBV(v), model_completion=True)
                out[name] = 'f:%#x' % bits.as_long()
            else:
                out[name] = x.as_signed_long()
        return out

    def run_state(self, st, max_steps):
        """Run until the state forks (returns successor list) or ends (raises PathEnd)."""
        frames = st.frames
        val = self.val
        while True:
            fr = frames[-1]
            ins = fr.blk[fr.i]
            fr.i += 1
            st.steps += 1
            self.stats['instrs'] += 1
            if st.steps > max_steps:
                raise Finding('hang' if self.hang_is_finding else 'limit',
                              'no termination within %d IR steps, at %s' % (max_steps, self.where(st)))
            if not st.steps & 0xffff and time.time() > self.deadline:
                raise Finding('limit', 'time limit inside one path (%d steps) at %s' % (st.steps, self.where(st)))
            op = ins.op
            regs = fr.regs
            if op == 'load':
                a = val(fr, ins.a)
                if type(a) is int:
                    regs[ins.dst] = self.load(st, a, ins.ty)
                else:
                    out = self.sym_mem(st, ins, a, None)
                    if out is not None:
                        return out
            elif op == 'store':
                a = val(fr, ins.b)
                if type(a) is int:
                    self.store(st, a, ins.ty, val(fr, ins.a))
                else:
                    out = self.sym_mem(st, ins, a, (val(fr, ins.a),))
                    if out is not None:
                        return out
            elif op == 'getelementptr':
                k = ins.c
                if k is None:
                    if all(v[0] == 'c' for t, v in ins.b):
                        k = ins.c = sgn(self.gep(ins.ty, 0, [(t, v[1]) for t, v in ins.b]), 64)
                    else:
                        k = ins.c = False
                if k is not False:
                    base = val(fr, ins.a)
                    regs[ins.dst] = (base + k) & 0xffffffffffffffff if type(base) is int else base + k
                else:
                    regs[ins.dst] = self.gep(ins.ty, val(fr, ins.a), [(t, val(fr, v)) for t, v in ins.b])
            elif op == 'icmp':
                t = ins.ty.res()
                regs[ins.dst] = self.icmp(ins.x, 64 if t.k != 'int' else t.bits, val(fr, ins.a), val(fr, ins.b))
            elif op == 'br':
                c = val(fr, ins.a)
                if is_sym(c):
                    res = self.branch(st, boolv(c))
                    out = []
                    for s2, taken in res:
                        f2 = s2.frames[-1]
                        self.goto(f2, ins.b if taken else ins.c)
                        out.append(s2)
                    if len(out) == 1 and out[0] is st:
                        continue
                    return out
                self.goto(fr, ins.b if c else ins.c)
            elif op == 'jmp':
                self.goto(fr, ins.a)
            elif op == 'phi':
                # evaluate all phis of the block simultaneously
                blk = fr.blk
                j = fr.i - 1
                vals = []
                while blk[j].op == 'phi':
                    vals.append((blk[j].dst, val(fr, blk[j].a[fr.prev])))
                    j += 1
                for d, v in vals:
                    regs[d] = v
                fr.i = j
            elif op in ('sext', 'zext', 'trunc', 'bitcast', 'ptrtoint', 'inttoptr', 'sitofp', 'uitofp',
                        'fptosi', 'fptoui', 'fpext', 'fptrunc'):
                regs[ins.dst] = self.cast(op, ins.x, ins.ty, val(fr, ins.a))
            elif op in ('add', 'sub', 'mul', 'and', 'or', 'xor', 'shl', 'lshr', 'ashr', 'udiv', 'sdiv', 'urem',
                        'srem'):
                a, b = val(fr, ins.a), val(fr, ins.b)
                if op in ('udiv', 'sdiv', 'urem', 'srem') and is_sym(b):
                    mdl = self.check(st, bv(b, ins.ty.res().bits) == 0)
                    if mdl is not None:
                        st.pc.append(bv(b, ins.ty.res().bits) == 0)
                        raise Finding('ub', 'division by zero possible')
                regs[ins.dst] = self.binop(op, ins.ty.res().bits, a, b)
            elif op == 'call':
                r = self.do_call(st, fr, ins)
                if r is not None:
                    return r
            elif op == 'ret':
                v = val(fr, ins.a) if ins.a is not None else None
                for a in fr.allocas:
                    st.wobj(a >> SH).freed = True
                frames.pop()
                if not frames:
                    raise PathEnd()
                if fr.dst is not None:
                    frames[-1].regs[fr.dst] = v
            elif op == 'alloca':
                n = 1 if ins.a is None else val(fr, ins.a)
                if is_sym(n):
                    raise Finding('limit', 'symbolic alloca')
                a = st.alloc(max(1, ins.ty.size() * n), 'alloca:%s:%s' % (fr.fn.name, ins.dst))
                fr.allocas.append(a)
                regs[ins.dst] = a
            elif op == 'select':
                c = val(fr, ins.a)
                a, b = val(fr, ins.b), val(fr, ins.c)
                if is_sym(c):
                    t = ins.ty.res()
                    c = boolv(c)
                    if t.k == 'double':
                        regs[ins.dst] = ite_d(c, a, b)
                    elif t.k == 'int' and t.bits == 1:
                        regs[ins.dst] = z3.If(c, boolv(a), boolv(b))
                    else:
                        bits = t.bits if t.k == 'int' else 64
                        regs[ins.dst] = z3.If(c, bv(a, bits), bv(b, bits))
                else:
                    regs[ins.dst] = a if c else b
            elif op == 'fcmp':
                regs[ins.dst] = self.fcmp(ins.x, val(fr, ins.a), val(fr, ins.b))
            elif op in ('fadd', 'fsub', 'fmul', 'fdiv'):
                a, b = val(fr, ins.a), val(fr, ins.b)
                if op == 'fdiv' and isinstance(a, IntD) and isinstance(b, float) and b in (2.0, 4.0) and not a.nz:
                    # exact halving: if the solver shows the integer is a multiple of the divisor on this path, the
                    # quotient is again an exact integer-valued double; otherwise fall back to the IEEE term
                    p = int(b)
                    if self.check(st, (a.e & (p - 1)) != 0) is None:
                        regs[ins.dst] = IntD(a.e >> (p.bit_length() - 1), a.bound // p + 1)
                        continue
                regs[ins.dst] = self.fbin(op, a, b)
            elif op == 'fneg':
                a = val(fr, ins.a)
                if isinstance(a, IntD):
                    regs[ins.dst] = IntD(-a.e, a.bound, not a.nz)
                else:
                    regs[ins.dst] = z3.fpNeg(fp(a)) if is_sym(a) else -a
            elif op == 'switch':
                v = val(fr, ins.a)
                if is_sym(v):
                    bits = ins.ty.res().bits
                    out = []
                    cur = st
                    rest = []
                    for cv, lab in ins.c:
                        res = self.branch(cur, bv(v, bits) == cv)
                        nxt = None
                        for s2, taken in res:
                            if taken:
                                self.goto(s2.frames[-1], lab)
                                out.append(s2)
                            else:
                                nxt = s2
                        if nxt is None:
                            cur = None
                            break
                        cur = nxt
                    if cur is not None:
                        self.goto(cur.frames[-1], ins.b)
                        out.append(cur)
                    if len(out) == 1 and out[0] is st:
                        continue
                    return out
                for cv, lab in ins.c:
                    if cv == v:
                        self.goto(fr, lab)
                        break
                else:
                    self.goto(fr, ins.b)
            elif op == 'unreachable':
                raise Finding('ub', 'unreachable executed')
            else:
                raise NotImplementedError(ins.text)

    @staticmethod
    def goto(fr, lab):
        fr.prev = fr.lab
        fr.lab = lab
        fr.blk = fr.fn.blocks[lab]
        fr.i = 0

    # ---- calls -----------------------------------------------------------
    def do_call(self, st, fr, ins):
        callee = ins.a
        if callee[0] == 'g':
            name = callee[1]
            fn = self.m.funcs.get(name)
        else:
            fp_ = self.val(fr, callee)
            if is_sym(fp_):
                raise Finding('limit', 'symbolic function pointer')
            fn = self.fbyaddr.get(fp_)
            if fn is None:
                raise Finding('mem', 'call through bad function pointer %#x' % fp_)
            name = fn.name
        args = [self.val(fr, v) for t, v in ins.b]
        if fn is not None and fn.defined and name not in EXTERNS:
            self.call(st, fn, args, ins.dst)
            return None
        h = EXTERNS.get(name)
        if h is None:
            if name.startswith('@llvm.lifetime') or name.startswith('@llvm.dbg'):
                return None
            raise NotImplementedError('extern ' + name)
        r = h(self, st, fr, ins, args)
        if isinstance(r, list):
            return r
        if ins.dst is not None:
            fr.regs[ins.dst] = r
        return None

    def cstring(self, st, addr):
        r = self._cstr_cache.get(addr)
        if r is not None:
            return r
        r = self._cstring(st, addr)
        o = st.objs.get(addr >> SH)
        if o is not None and o.ro:
            self._cstr_cache[addr] = r
        return r

    def _cstring(self, st, addr):
        out = bytearray()
        while True:
            b = self.load_c(st, addr + len(out), 1, 'i')
            if is_sym(b):
                raise Finding('limit', 'symbolic C string')
            if b == 0:
                return out.decode('latin1')
            out.append(b)


# ---- extern handlers --------------------------------------------------
def _conc_size(ex, st, v, what):
    if is_sym(v):
        vals = ex.concretize(st, v, what)
        if len(vals) != 1:
            raise Finding('limit', 'symbolic size for %s: %s' % (what, vals[:5]))
        return vals[0]
    return v


def _alloc_fails(st):
    st.nalloc += 1
    return st.nalloc == st.fail_at


def _forked(fn, idxs):
    """Wrap an extern so that symbolic arguments at idxs are concretised by forking over their feasible values."""
    def h(ex, st, fr, ins, args):
        sy = [i for i in idxs if is_sym(args[i])]
        if sy:
            return ex.fork_call(st, ins, args, sy, lambda s2, a: fn(ex, s2, s2.frames[-1], ins, a), limit=300)
        return fn(ex, st, fr, ins, args)
    return h


def _x_malloc(ex, st, fr, ins, args):
    n = args[0]
    if n > (1 << 28) or _alloc_fails(st):
        return 0
    return st.alloc(n, 'malloc@%s' % fr.fn.name)


def _x_calloc(ex, st, fr, ins, args):
    n = args[0] * args[1]
    if n > (1 << 28) or _alloc_fails(st):
        return 0
    a = st.alloc(n, 'calloc@%s' % fr.fn.name)
    st.objs[a >> SH].zfill = True
    return a


def _x_realloc(ex, st, fr, ins, args):
    p = args[0]
    n = args[1]
    if n > (1 << 28) or _alloc_fails(st):
        return 0
    a = st.alloc(n, 'realloc@%s' % fr.fn.name)
    if p != 0:
        o, off = ex.resolve(st, p, 0)
        if off != 0:
            raise Finding('mem', 'realloc of interior pointer')
        ex.mem_copy_partial(st, a, p, min(n, o.size))
        st.wobj(p >> SH).freed = True
    return a


x_malloc = _forked(_x_malloc, [0])
x_calloc = _forked(_x_calloc, [0, 1])
x_realloc = _forked(_x_realloc, [0, 1])


def _mem_copy_partial(self, st, dst, src, n):
    # copy only initialised bytes
    if n == 0:
        return
    so, soff = self.resolve(st, src, n)
    self.mem_copy(st, dst, src, n)


Executor.mem_copy_partial = _mem_copy_partial


def _x_free(ex, st, fr, ins, args):
    p = args[0]
    if is_sym(p):
        raise Finding('limit', 'symbolic free')
    if p == 0:
        return None
    k = p >> SH
    o = st.objs.get(k)
    if o is None or (p & OFFMASK) != 0 or not o.name.startswith(('malloc', 'calloc', 'realloc')):
        raise Finding('mem', 'invalid free %#x' % p)
    if o.freed:
        raise Finding('mem', 'double free of ' + o.name)
    st.wobj(k).freed = True
    return None


x_free = _forked(_x_free, [0])


def x_memcpy(ex, st, fr, ins, args):
    if is_sym(args[0]) or is_sym(args[1]) or is_sym(args[2]):
        def body(s2, a):
            ex.mem_copy(s2, a[0], a[1], a[2])
            return a[0]
        return ex.fork_call(st, ins, args, [i for i in (2, 0, 1) if is_sym(args[i])], body)
    ex.mem_copy(st, args[0], args[1], args[2])
    return args[0]


def x_memset(ex, st, fr, ins, args):
    if is_sym(args[0]) or is_sym(args[2]):
        def body(s2, a):
            ex.mem_set(s2, a[0], a[1], a[2])
            return a[0]
        return ex.fork_call(st, ins, args, [i for i in (2, 0) if is_sym(args[i])], body)
    ex.mem_set(st, args[0], args[1], args[2])
    return args[0]


_FMT = __import__('re').compile(r'%([-+ #0]*)(\*|\d+)?(?:\.(\*|\d+))?(hh|h|ll|l|z|j|t|L)?([diuxXcsfgeG%])')


def x_snprintf(ex, st, fr, ins, args):
    args = list(args)
    dbl = [i for i, a in enumerate(args) if isinstance(a, IntD)]
    for i in dbl:
        args[i] = args[i].e  # fork over the integer values of integer-valued doubles
    symi = [i for i, a in enumerate(args) if i not in (1, 2) and is_sym(a) and not z3.is_fp(a)]

    def body(s2, a):
        a = list(a)
        for i in dbl:
            a[i] = float(sgn(a[i], 64)) if not is_sym(a[i]) else a[i]
        size = a[1]
        if not is_sym(size):
            return _snprintf(ex, s2, a)
        # symbolic buffer size: either the whole text fits, or (few cases) it is cut at size-1
        a_fit = list(a)
        a_fit[1] = 1 << 20
        text_len = _snprintf(ex, s2.clone(), a_fit)
        outs = []
        for s3, fits in ex.branch(s2, z3.UGT(bv(size, 64), z3.BitVecVal(text_len, 64))):
            if fits:
                _snprintf(ex, s3, a_fit)
                s3.frames[-1].regs[ins.dst] = text_len
                outs.append(s3)
            else:
                for s4, sz in ex.fork_values(s3, size, 'snprintf size', limit=text_len + 2):
                    a4 = list(a)
                    a4[1] = sz
                    s4.frames[-1].regs[ins.dst] = _snprintf(ex, s4, a4)
                    outs.append(s4)
        return outs
    if symi:
        return ex.fork_call(st, ins, args, symi, body)
    r = body(st, args)
    return r


def _snprintf(ex, st, args):
    buf, size, fmt = args[0], args[1], ex.cstring(st, args[2])
    rest = list(args[3:])
    out = []
    pos = 0
    for m in _FMT.finditer(fmt):
        out.append(fmt[pos:m.start()])
        pos = m.end()
        flags, width, prec, _len, conv = m.groups()
        if conv == '%':
            out.append('%')
            continue
        if width == '*':
            width = str(sgn(rest.pop(0), 32))
        if prec == '*':
            prec = str(sgn(rest.pop(0), 32))
        a = rest.pop(0)
        if conv == 's':
            a = ex.cstring(st, a)
        elif is_sym(a):
            raise Finding('limit', 'snprintf of a symbolic value')
        elif conv in 'di':
            a = sgn(a, 64 if _len in ('l', 'll', 'z', 'j', 't') else 32)
        elif conv == 'c':
            a = chr(a & 0xff)
        spec = '%' + flags + (width or '') + ('.' + prec if prec is not None else '') + (conv if conv != 'i' else 'd')
        out.append(spec % a)
    out.append(fmt[pos:])
    text = ''.join(out).encode('latin1')
    if size > 0:
        w = text[:size - 1] + b'\0'
        ex.resolve(st, buf, len(w), True)
        for i, b in enumerate(w):
            ex.store_c(st, buf + i, 1, 'i', b)
    return len(text)


def x_noop0(ex, st, fr, ins, args):
    return 0


def x_abort(ex, st, fr, ins, args):
    raise Finding('abort', 'abort() called')


def x_assert_fail(ex, st, fr, ins, args):
    raise Finding('abort', 'assert failed: ' + ex.cstring(st, args[0]))


def x_sym_i32(ex, st, fr, ins, args):
    name = ex.cstring(st, args[0])
    v = z3.BitVec(name, 32)
    st.syms[name] = (v, 'i')
    return v


def x_sym_i64(ex, st, fr, ins, args):
    name = ex.cstring(st, args[0])
    v = z3.BitVec(name, 64)
    st.syms[name] = (v, 'i')
    return v


def x_sym_f64(ex, st, fr, ins, args):
    name = ex.cstring(st, args[0])
    v = z3.FP(name, F64)
    st.syms[name] = (v, 'f')
    return v


def x_sym_f64_int(ex, st, fr, ins, args):
    """double that is exactly a small signed integer: to_fp(bv8)"""
    name = ex.cstring(st, args[0])
    b = z3.BitVec(name, 8)
    st.syms[name] = (b, 'i')
    if INTD:
        return IntD(z3.SignExt(56, b), 128)
    return z3.fpSignedToFP(RNE, b, F64)


def x_sym_choice(ex, st, fr, ins, args):
    name = ex.cstring(st, args[0])
    lo, hi = sgn(args[1], 32), sgn(args[2], 32)
    base = st.trace
    if ex.replay is not None:
        k = ex.next_decision()
        if not lo <= k <= hi:
            raise RuntimeError('replayed choice out of range')
        st.syms[name] = (z3.BitVecVal(k, 32), 'i')
        st.trace = (base, k)
        return mask(k, 32)
    out = []
    for k in range(hi, lo - 1, -1):
        s2 = st.clone() if k > lo else st
        s2.frames[-1].regs[ins.dst] = mask(k, 32)
        s2.syms[name] = (z3.BitVecVal(k, 32), 'i')
        s2.trace = (base, k)
        out.append(s2)
    ex.stats['forks'] += hi - lo
    return out


def _phash(t):
    h = 1469598103934665603
    for x in t:
        h = ((h ^ (x & 0xffffffff)) * 1099511628211) & 0xffffffffffffffff
    return h >> 7


def x_sym_assume(ex, st, fr, ins, args):
    c = args[0]
    if is_sym(c):
        c = z3.simplify(boolv(c))
        if z3.is_false(c):
            raise PathEnd('pruned')
        if not z3.is_true(c):
            st.pc.append(c)
            if st.model is not None and not z3.is_true(st.model.eval(c, model_completion=True)):
                st.model = ex.check(st)
                if st.model is None:
                    raise PathEnd('pruned')
    elif not c:
        raise PathEnd('pruned')
    return None


def x_sym_assert(ex, st, fr, ins, args):
    c = args[0]
    msg = ex.cstring(st, args[1])
    if is_sym(c):
        c = boolv(c)
        mdl = ex.check(st, z3.Not(c))
        if mdl is not None:
            s2 = st.clone()
            s2.pc.append(z3.Not(c))
            ex.report(s2, 'assert', msg, mdl)
            # continue on passing side
            st.pc.append(c)
            st.model = None
            if ex.check(st) is None:
                raise PathEnd()
    elif not c:
        raise Finding('assert', msg)
    return None


def x_sym_reach(ex, st, fr, ins, args):
    st.reached.append(ex.cstring(st, args[0]))
    return None


def x_sym_is_symbolic(ex, st, fr, ins, args):
    return int(is_sym(args[0]))


def x_fabs(ex, st, fr, ins, args):
    a = args[0]
    if isinstance(a, IntD):
        return IntD(z3.If(a.e < 0, -a.e, a.e), a.bound)
    return z3.fpAbs(a) if is_sym(a) else abs(a)


def _mk_cttz(bits):
    def h(ex, st, fr, ins, args):
        a = args[0]
        if is_sym(a):
            r = z3.BitVecVal(bits, bits)
            for i in range(bits - 1, -1, -1):
                r = z3.If(z3.Extract(i, i, bv(a, bits)) == 1, z3.BitVecVal(i, bits), r)
            return r
        a &= (1 << bits) - 1
        if a == 0:
            return bits
        return (a & -a).bit_length() - 1
    return h


def _mk_ctlz(bits):
    def h(ex, st, fr, ins, args):
        a = args[0]
        if is_sym(a):
            raise Finding('limit', 'symbolic ctlz')
        a &= (1 << bits) - 1
        return bits - a.bit_length()
    return h


def x_fmuladd(ex, st, fr, ins, args):
    a, b, c = args
    return ex.fbin('fadd', ex.fbin('fmul', a, b), c)


def _mk_round(mode, pyf):
    def h(ex, st, fr, ins, args):
        a = args[0]
        if isinstance(a, IntD):
            return a
        if is_sym(a):
            return z3.fpRoundToIntegral(mode, a)
        if a != a or abs(a) == math.inf:
            return a
        return float(pyf(a))
    return h


def x_sqrt(ex, st, fr, ins, args):
    a = args[0]
    if is_sym(a):
        return z3.fpSqrt(RNE, fp(a))
    return math.sqrt(a) if a >= 0 else math.nan


def _files(st):
    return st.files


def x_fail_alloc_at(ex, st, fr, ins, args):
    """sym_fail_alloc_at(k): the k-th allocation from now returns NULL (k<=0: never)."""
    k = sgn(args[0], 32)
    st.fail_at = st.nalloc + k if k > 0 else -1
    return None


def x_sym_readonly(ex, st, fr, ins, args):
    """sym_readonly(ptr, on): mark the object containing ptr read-only (or writable again)."""
    p = args[0]
    if p != 0:
        st.wobj(p >> SH).ro = bool(args[1])
    return None


def x_sym_i8(ex, st, fr, ins, args):
    name = ex.cstring(st, args[0])
    v = z3.BitVec(name, 8)
    st.syms[name] = (v, 'i')
    return z3.SignExt(24, v)


def x_file_new(ex, st, fr, ins, args):
    h = st.alloc(1, 'FILE')
    buf = st.alloc(1 << 24, 'filebuf')
    _files(st)[h] = dict(buf=buf, pos=0, len=0, eof=0)
    return h


def x_file_rewind(ex, st, fr, ins, args):
    f = _files(st)[args[0]]
    f['pos'] = 0
    f['eof'] = 0
    f['atend'] = False
    return None


def x_file_set_len(ex, st, fr, ins, args):
    f = _files(st)[args[0]]
    f['len'] = args[1]
    return None


def x_file_len(ex, st, fr, ins, args):
    return _files(st)[args[0]]['len']


def x_file_poke(ex, st, fr, ins, args):
    """sym_file_poke(f, pos, byte): overwrite one byte of the file image."""
    f = _files(st)[args[0]]
    pos = args[1]
    if is_sym(pos):
        raise Finding('limit', 'symbolic poke position')
    ex.store_c(st, f['buf'] + pos, 1, 'i', args[2] if not is_sym(args[2]) else z3.Extract(7, 0, bv(args[2], 32)))
    return None


def x_file_peek(ex, st, fr, ins, args):
    f = _files(st)[args[0]]
    v = ex.load_c(st, f['buf'] + args[1], 1, 'i')
    return z3.ZeroExt(24, v) if is_sym(v) else v


def x_fwrite(ex, st, fr, ins, args):
    f = _files(st)[args[3]]
    n = _conc_size(ex, st, args[1], 'fwrite') * _conc_size(ex, st, args[2], 'fwrite')
    if n:
        ex.mem_copy(st, f['buf'] + f['pos'], args[0], n)
    f['pos'] += n
    f['len'] = max(f['len'], f['pos'])
    return args[2]


def x_fread(ex, st, fr, ins, args):
    f = _files(st)[args[3]]
    size = _conc_size(ex, st, args[1], 'fread')
    want = size * _conc_size(ex, st, args[2], 'fread')
    if f.get('atend'):
        f['eof'] = 1
        return 0
    ln = f['len']
    if is_sym(ln):
        # fork: enough bytes left / short read (the symbolic remainder is delivered as a count only)
        if want == 0:
            return 0
        enough = bv(ln, 64) - f['pos'] >= want
        res = ex.branch(st, enough)
        out = []
        for s2, taken in res:
            f2 = _files(s2)[args[3]]
            if taken:
                ex.mem_copy(s2, args[0], f2['buf'] + f2['pos'], want)
                f2['pos'] += want
                r = want // size
            else:
                avail = bv(ln, 64) - f2['pos']
                r = 0 if size == want else (avail if size == 1 else z3.UDiv(avail, z3.BitVecVal(size, 64)))
                f2['atend'] = True
                f2['eof'] = 1
            if ins.dst is not None:
                s2.frames[-1].regs[ins.dst] = r
            out.append(s2)
        return out
    avail = ln - f['pos']
    n = min(want, max(avail, 0))
    if n:
        ex.mem_copy(st, args[0], f['buf'] + f['pos'], n)
    f['pos'] += n
    if n < want:
        f['eof'] = 1
    return n // size if size else 0


def x_file_unseekable(ex, st, fr, ins, args):
    _files(st)[args[0]]['noseek'] = True
    return args[0]


def x_ftell(ex, st, fr, ins, args):
    f = _files(st)[args[0]]
    if f.get('noseek'):
        return 0xffffffffffffffff  # -1: a pipe or socket
    return f['len'] if f.get('atend') else f['pos']


def x_fseek(ex, st, fr, ins, args):
    f = _files(st)[args[0]]
    if f.get('noseek'):
        return 0xffffffff  # -1
    off = sgn(args[1], 64)
    wh = args[2]
    if wh != 0 and (f.get('atend') or wh == 2) and is_sym(f['len']):
        raise Finding('limit', 'relative fseek on a file of symbolic length')
    f['pos'] = off if wh == 0 else f['pos'] + off if wh == 1 else f['len'] + off
    f['eof'] = 0
    f['atend'] = False
    return 0


def x_feof(ex, st, fr, ins, args):
    return _files(st)[args[0]]['eof']


def x_uuid(ex, st, fr, ins, args):
    u = b'01234567-89ab-4def-8123-456789abcdef\0'
    o, off = ex.resolve(st, args[0], len(u), True)
    for i, b in enumerate(u):
        o.data[off + i] = ((b, 1, 'i'), 0)
    return 0


def x_stderr(ex, st, fr, ins, args):
    return 0


EXTERNS = {
    '@malloc': x_malloc, '@calloc': x_calloc, '@realloc': x_realloc, '@free': x_free,
    '@llvm.memcpy.p0i8.p0i8.i64': x_memcpy, '@llvm.memmove.p0i8.p0i8.i64': x_memcpy,
    '@llvm.memset.p0i8.i64': x_memset, '@memcpy': x_memcpy, '@memmove': x_memcpy, '@memset': x_memset,
    '@fprintf': x_noop0, '@printf': x_noop0, '@fputs': x_noop0, '@fputc': x_noop0,
    '@abort': x_abort, '@snprintf': x_snprintf, '@__assert_fail': x_assert_fail,
    '@sym_i32': x_sym_i32, '@sym_i8': x_sym_i8, '@sym_fail_alloc_at': x_fail_alloc_at, '@sym_readonly': x_sym_readonly, '@sym_i64': x_sym_i64, '@sym_f64': x_sym_f64, '@sym_f64_int': x_sym_f64_int,
    '@sym_assume': x_sym_assume, '@sym_choice': x_sym_choice, '@sym_assert': x_sym_assert, '@sym_reach': x_sym_reach,
    '@llvm.fabs.f64': x_fabs, '@tsk_generate_uuid': x_uuid, '@sym_file_new': x_file_new, '@sym_file_rewind': x_file_rewind,
    '@sym_file_set_len': x_file_set_len, '@sym_file_len': x_file_len, '@sym_file_unseekable': x_file_unseekable, '@sym_file_poke': x_file_poke, '@sym_file_peek': x_file_peek, '@fwrite': _forked(x_fwrite, [1, 2]), '@fread': _forked(x_fread, [1, 2]),
    '@ftell': x_ftell, '@fseek': x_fseek, '@feof': x_feof, '@ferror': x_noop0, '@fclose': x_noop0,
    '@fflush': x_noop0, '@clearerr': x_noop0, '@sqrt': x_sqrt, '@llvm.trunc.f64': _mk_round(z3.RTZ(), math.trunc),
    '@llvm.floor.f64': _mk_round(z3.RTN(), math.floor), '@llvm.ceil.f64': _mk_round(z3.RTP(), math.ceil),
    '@floor': _mk_round(z3.RTN(), math.floor), '@trunc': _mk_round(z3.RTZ(), math.trunc), '@ceil': _mk_round(z3.RTP(), math.ceil), '@llvm.fmuladd.f64': x_fmuladd, '@llvm.cttz.i32': _mk_cttz(32), '@llvm.cttz.i64': _mk_cttz(64),
    '@llvm.ctlz.i32': _mk_ctlz(32), '@llvm.ctlz.i64': _mk_ctlz(64),
}


def main():
    path, entry = sys.argv[1], sys.argv[2]
    t0 = time.time()
    m = Module().parse(path)
    ex = Executor(m, verbose='-v' in sys.argv)
    print('parsed+init in %.2fs' % (time.time() - t0))
    stats = ex.run('@' + entry, timeout=float(sys.argv[3]) if len(sys.argv) > 3 and sys.argv[3] != '-v' else 600)
    print(stats)
    from collections import Counter
    print(Counter(tuple(s.reached) for s in ex.completed).most_common(30))
    for f in ex.findings[:10]:
        print('FINDING', f)


if __name__ == '__main__':
    main()
