/* Native replay runtime: the same harness, linked against the real library
 * with a C compiler, reads the values the solver chose from $SYM_INPUT
 * ("name value" per line; doubles as f:<hex bits>) and prints what happens. */
#define _GNU_SOURCE
#include <stdio.h>
#include <stdlib.h>
#include <string.h>
#include <unistd.h>
#include "sym.h"

#define MAXV 4096
static char names[MAXV][48];
static char vals[MAXV][40];
static int nvals = -1;

static void
load(void)
{
    const char *p = getenv("SYM_INPUT");
    FILE *f;
    nvals = 0;
    if (p == NULL) {
        return;
    }
    f = fopen(p, "r");
    if (f == NULL) {
        fprintf(stderr, "cannot open %s\n", p);
        exit(3);
    }
    while (nvals < MAXV && fscanf(f, "%47s %39s", names[nvals], vals[nvals]) == 2) {
        nvals++;
    }
    fclose(f);
}

static const char *
lookup(const char *name)
{
    int j;
    if (nvals < 0) {
        load();
    }
    for (j = 0; j < nvals; j++) {
        if (strcmp(names[j], name) == 0) {
            return vals[j];
        }
    }
    return NULL;
}

static int64_t
ival(const char *name)
{
    const char *v = lookup(name);
    return v == NULL ? 0 : strtoll(v, NULL, 0);
}

int32_t sym_i8(const char *name) { return (int32_t)(int8_t) ival(name); }
int32_t sym_i32(const char *name) { return (int32_t) ival(name); }
int64_t sym_i64(const char *name) { return ival(name); }
double sym_f64_int(const char *name) { return (double) (int8_t) ival(name); }

double
sym_f64(const char *name)
{
    const char *v = lookup(name);
    uint64_t bits = 0;
    double d;
    if (v != NULL && v[0] == 'f' && v[1] == ':') {
        bits = strtoull(v + 2, NULL, 0);
    }
    memcpy(&d, &bits, 8);
    return d;
}

int32_t
sym_choice(const char *name, int32_t lo, int32_t hi)
{
    const char *v = lookup(name);
    int32_t x = v == NULL ? lo : (int32_t) strtoll(v, NULL, 0);
    if (x < lo || x > hi) {
        printf("CHOICE-RANGE %s\n", name);
        exit(77);
    }
    return x;
}

void
sym_assume(int cond)
{
    if (!cond) {
        printf("ASSUME-FAIL\n");
        fflush(stdout);
        exit(77);
    }
}

void
sym_assert(int cond, const char *msg)
{
    if (!cond) {
        printf("ASSERT-FAIL %s\n", msg);
        fflush(stdout);
    }
}

void
sym_reach(const char *tag)
{
    printf("REACH %s\n", tag);
    fflush(stdout);
}

void sym_fail_alloc_at(int32_t k) { (void) k; }
void sym_readonly(const void *p, int on) { (void) p; (void) on; }

FILE *
sym_file_new(void)
{
    FILE *f = tmpfile();
    if (f == NULL) {
        exit(3);
    }
    return f;
}

void
sym_file_rewind(FILE *f)
{
    fflush(f);
    rewind(f);
}

void
sym_file_set_len(FILE *f, int64_t n)
{
    fflush(f);
    if (ftruncate(fileno(f), n) != 0) {
        exit(3);
    }
}

int64_t
sym_file_len(FILE *f)
{
    long cur = ftell(f), end;
    fseek(f, 0, SEEK_END);
    end = ftell(f);
    fseek(f, cur, SEEK_SET);
    return end;
}

void
sym_file_poke(FILE *f, int64_t pos, int32_t byte)
{
    long cur = ftell(f);
    fseek(f, (long) pos, SEEK_SET);
    fputc(byte & 0xff, f);
    fflush(f);
    fseek(f, cur, SEEK_SET);
}

int32_t
sym_file_peek(FILE *f, int64_t pos)
{
    long cur = ftell(f);
    int c;
    fflush(f);
    fseek(f, (long) pos, SEEK_SET);
    c = fgetc(f);
    fseek(f, cur, SEEK_SET);
    return c < 0 ? 0 : c;
}

FILE *
sym_file_unseekable(FILE *f)
{
    /* copy the remaining bytes into a pipe (they fit the pipe buffer at our sizes) and read from that */
    int fds[2], c;
    FILE *w, *r;
    if (pipe(fds) != 0) {
        exit(3);
    }
    w = fdopen(fds[1], "wb");
    r = fdopen(fds[0], "rb");
    while ((c = fgetc(f)) != EOF) {
        fputc(c, w);
    }
    fclose(w);
    return r;
}

#ifdef SYM_ENTRY
int SYM_ENTRY(void);
int
main(void)
{
    int r = SYM_ENTRY();
    printf("EXIT %d\n", r);
    return 0;
}
#endif
