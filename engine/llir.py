"""Minimal parser for the textual LLVM-14 IR clang emits for C (typed pointers).

Produces Module(types, globals, functions). Only what the tskit C sources need.
"""
import re
import struct

TOK = re.compile(
    r'''\s*(?:
    (?P<cstr>c"(?:[^"\\]|\\[0-9A-Fa-f]{2})*")
  | (?P<id>[%@](?:"[^"]*"|[-a-zA-Z$._0-9]+))
  | (?P<hex>0x[0-9A-Fa-f]+)
  | (?P<flt>-?\d+\.\d*(?:e[+-]?\d+)?)
  | (?P<int>-?\d+)
  | (?P<dots>\.\.\.)
  | (?P<word>[a-zA-Z_][a-zA-Z0-9_.]*)
  | (?P<str>"[^"]*")
  | (?P<meta>![a-zA-Z0-9_.]*)
  | (?P<attr>\#\d+)
  | (?P<p>[()\[\]{}<>,*=:])
)''', re.X)


def tokenize(line):
    out = []
    pos = 0
    n = len(line)
    while pos < n:
        m = TOK.match(line, pos)
        if not m:
            if line[pos:].strip() == '':
                break
            raise SyntaxError('tokenize: %r at %r' % (line, line[pos:pos + 20]))
        pos = m.end()
        k = m.lastgroup
        out.append((k, m.group(k)))
    return out


class Ty:
    __slots__ = ('k', 'bits', 'elem', 'n', 'fields', 'packed', 'name', 'mod', '_size', '_align', '_offs')

    def __init__(self, k, **kw):
        self.k = k
        self.bits = kw.get('bits')
        self.elem = kw.get('elem')
        self.n = kw.get('n')
        self.fields = kw.get('fields')
        self.packed = kw.get('packed', False)
        self.name = kw.get('name')
        self.mod = kw.get('mod')
        self._size = None
        self._align = None
        self._offs = None

    def res(self):
        t = self
        while t.k == 'named':
            t = t.mod.types[t.name]
        return t

    def size(self):
        t = self.res()
        if t._size is None:
            t._layout()
        return t._size

    def align(self):
        t = self.res()
        if t._align is None:
            t._layout()
        return t._align

    def offsets(self):
        t = self.res()
        if t._offs is None:
            t._layout()
        return t._offs

    def _layout(self):
        k = self.k
        if k == 'int':
            b = max(1, (self.bits + 7) // 8)
            # round to power of two
            p = 1
            while p < b:
                p *= 2
            self._size = p
            self._align = min(p, 8)
        elif k == 'double':
            self._size = 8
            self._align = 8
        elif k == 'float':
            self._size = 4
            self._align = 4
        elif k in ('ptr', 'func'):
            self._size = 8
            self._align = 8
        elif k == 'array':
            self._size = self.n * self.elem.size()
            self._align = self.elem.align()
        elif k == 'struct':
            off = 0
            al = 1
            offs = []
            for f in self.fields:
                a = 1 if self.packed else f.align()
                al = max(al, a)
                off = (off + a - 1) // a * a
                offs.append(off)
                off += f.size()
            off = (off + al - 1) // al * al
            self._size = off
            self._align = al
            self._offs = offs
        elif k == 'opaque':
            self._size = 0
            self._align = 1
        elif k == 'void':
            self._size = 0
            self._align = 1
        else:
            raise ValueError(k)

    def __repr__(self):
        k = self.k
        if k == 'int':
            return 'i%d' % self.bits
        if k in ('double', 'float', 'void', 'opaque', 'label', 'metadata'):
            return k
        if k == 'ptr':
            return '%r*' % (self.elem,)
        if k == 'array':
            return '[%d x %r]' % (self.n, self.elem)
        if k == 'named':
            return self.name
        if k == 'struct':
            return '{%s}' % ', '.join(map(repr, self.fields))
        if k == 'func':
            return 'fn'
        return k


_INTS = {}


def int_ty(bits):
    t = _INTS.get(bits)
    if t is None:
        t = _INTS[bits] = Ty('int', bits=bits)
    return t


DOUBLE = Ty('double')
FLOAT = Ty('float')
VOID = Ty('void')
LABEL = Ty('label')
I8P = Ty('ptr', elem=int_ty(8))

PARAM_ATTRS = {
    'noundef', 'nonnull', 'signext', 'zeroext', 'noalias', 'nocapture', 'readonly', 'writeonly',
    'readnone', 'immarg', 'returned', 'inreg', 'nest', 'nofree', 'swiftself', 'noinline',
}


class P:
    """Token stream parser."""

    def __init__(self, toks, mod):
        self.t = toks
        self.i = 0
        self.mod = mod

    def peek(self, o=0):
        j = self.i + o
        return self.t[j] if j < len(self.t) else (None, None)

    def next(self):
        x = self.t[self.i]
        self.i += 1
        return x

    def accept(self, v):
        if self.i < len(self.t) and self.t[self.i][1] == v:
            self.i += 1
            return True
        return False

    def expect(self, v):
        x = self.next()
        if x[1] != v:
            raise SyntaxError('expected %r got %r in %r' % (v, x, self.t))

    def eof(self):
        return self.i >= len(self.t)

    def skip_attrs(self):
        while True:
            k, v = self.peek()
            if k == 'word' and v in PARAM_ATTRS:
                self.i += 1
            elif k == 'word' and v in ('align', 'dereferenceable', 'dereferenceable_or_null'):
                self.i += 1
                if self.accept('('):
                    self.next()
                    self.expect(')')
                else:
                    self.next()
            elif k == 'word' and v in ('byval', 'sret', 'elementtype'):
                raise SyntaxError('unsupported attr ' + v)
            else:
                break

    def ty(self):
        k, v = self.next()
        if k == 'word':
            if v[0] == 'i' and v[1:].isdigit():
                t = int_ty(int(v[1:]))
            elif v == 'double':
                t = DOUBLE
            elif v == 'float':
                t = FLOAT
            elif v == 'void':
                t = VOID
            elif v == 'label':
                t = LABEL
            elif v == 'opaque':
                t = Ty('opaque')
            elif v == 'metadata':
                t = Ty('metadata')
            elif v == 'x86_fp80':
                t = Ty('double')
            else:
                raise SyntaxError('type word %r in %r' % (v, self.t))
        elif k == 'id' and v[0] == '%':
            t = Ty('named', name=v, mod=self.mod)
        elif v == '[':
            n = int(self.next()[1])
            self.expect('x')
            e = self.ty()
            self.expect(']')
            t = Ty('array', n=n, elem=e)
        elif v == '{':
            t = self._struct(False)
        elif v == '<':
            if self.accept('{'):
                t = self._struct(True)
                self.expect('>')
            else:
                raise SyntaxError('vector types unsupported')
        else:
            raise SyntaxError('type %r in %r' % (v, self.t))
        # suffixes
        while True:
            if self.accept('*'):
                t = Ty('ptr', elem=t)
            elif self.peek()[1] == '(' and self._looks_functy():
                self.next()
                args = []
                va = False
                if not self.accept(')'):
                    while True:
                        if self.accept('...'):
                            va = True
                        else:
                            args.append(self.ty())
                            self.skip_attrs()
                        if self.accept(')'):
                            break
                        self.expect(',')
                t = Ty('func', elem=t, fields=args, packed=va)
            else:
                break
        return t

    def _looks_functy(self):
        # a '(' directly after a type, in a type context, is a function type
        return True

    def _struct(self, packed):
        fs = []
        if not self.accept('}'):
            while True:
                fs.append(self.ty())
                if self.accept('}'):
                    break
                self.expect(',')
        return Ty('struct', fields=fs, packed=packed)

    # constants / operands ------------------------------------------------
    def operand(self, ty):
        """Parse a value of known type; returns operand descriptor."""
        k, v = self.next()
        if k == 'id':
            if v[0] == '%':
                return ('r', v)
            return ('g', v)
        if k == 'int':
            if ty.res().k in ('double', 'float'):
                return ('c', float(int(v)))
            return ('c', int(v) & ((1 << ty.res().bits) - 1))
        if k == 'flt':
            return ('c', float(v))
        if k == 'hex':
            if ty.res().k == 'double':
                return ('c', struct.unpack('<d', struct.pack('<Q', int(v, 16)))[0])
            if ty.res().k == 'float':
                return ('c', struct.unpack('<d', struct.pack('<Q', int(v, 16)))[0])
            return ('c', int(v, 16))
        if k == 'word':
            if v == 'null':
                return ('c', 0)
            if v == 'true':
                return ('c', 1)
            if v == 'false':
                return ('c', 0)
            if v in ('undef', 'poison'):
                return ('undef', ty)
            if v == 'zeroinitializer':
                return ('zero', ty)
            if v in ('getelementptr', 'bitcast', 'inttoptr', 'ptrtoint', 'trunc', 'zext', 'sext',
                     'add', 'sub'):
                return self.constexpr(v)
        if k == 'cstr':
            return ('bytes', cstr_bytes(v))
        if v == '[':
            items = []
            if not self.accept(']'):
                while True:
                    t = self.ty()
                    items.append((t, self.operand(t)))
                    if self.accept(']'):
                        break
                    self.expect(',')
            return ('agg', items)
        if v == '{':
            items = []
            if not self.accept('}'):
                while True:
                    t = self.ty()
                    items.append((t, self.operand(t)))
                    if self.accept('}'):
                        break
                    self.expect(',')
            return ('agg', items)
        if v == '<':
            self.expect('{')
            items = []
            if not self.accept('}'):
                while True:
                    t = self.ty()
                    items.append((t, self.operand(t)))
                    if self.accept('}'):
                        break
                    self.expect(',')
            self.expect('>')
            return ('agg', items)
        raise SyntaxError('operand %r %r in %r' % (k, v, self.t))

    def constexpr(self, op):
        if op == 'getelementptr':
            self.accept('inbounds')
            self.expect('(')
            sty = self.ty()
            self.expect(',')
            pty = self.ty()
            base = self.operand(pty)
            idx = []
            while self.accept(','):
                self.accept('inrange')
                t = self.ty()
                idx.append((t, self.operand(t)))
            self.expect(')')
            return ('cgep', sty, base, idx)
        self.expect('(')
        t = self.ty()
        o = self.operand(t)
        if op in ('add', 'sub'):
            self.expect(',')
            t2 = self.ty()
            o2 = self.operand(t2)
            self.expect(')')
            return ('cbin', op, t, o, o2)
        self.expect('to')
        t2 = self.ty()
        self.expect(')')
        return ('ccast', op, t, o, t2)

    def typed_operand(self):
        t = self.ty()
        self.skip_attrs()
        return t, self.operand(t)


def cstr_bytes(v):
    s = v[2:-1]
    out = bytearray()
    i = 0
    while i < len(s):
        if s[i] == '\\':
            out.append(int(s[i + 1:i + 3], 16))
            i += 3
        else:
            out.append(ord(s[i]))
            i += 1
    return bytes(out)


class Instr:
    __slots__ = ('op', 'dst', 'ty', 'a', 'b', 'c', 'x', 'text')

    def __init__(self, op, dst=None, ty=None, a=None, b=None, c=None, x=None, text=None):
        self.op = op
        self.dst = dst
        self.ty = ty
        self.a = a
        self.b = b
        self.c = c
        self.x = x
        self.text = text

    def __repr__(self):
        return self.text


class Func:
    def __init__(self, name, ret, params, vararg):
        self.name = name
        self.ret = ret
        self.params = params  # list of (ty, name)
        self.vararg = vararg
        self.blocks = {}  # label -> list[Instr]
        self.entry = None
        self.defined = False


class Module:
    def __init__(self):
        self.types = {}
        self.globals = {}  # name -> (ty, init operand or None, is_const)
        self.funcs = {}

    def parse(self, path):
        lines = open(path).read().split('\n')
        i = 0
        n = len(lines)
        while i < n:
            ln = lines[i]
            i += 1
            if not ln or ln[0] == ';' or ln.startswith(('source_filename', 'target ', 'attributes ', '!')):
                continue
            if ln[0] == '%':
                m = re.match(r'(%[^ ]+|%"[^"]*") = type (.*)$', ln)
                p = P(tokenize(m.group(2)), self)
                self.types[m.group(1)] = p.ty()
                continue
            if ln[0] == '@':
                self._global(ln)
                continue
            if ln.startswith('declare'):
                self._decl(ln, False)
                continue
            if ln.startswith('define'):
                f = self._decl(ln, True)
                cur = None
                first = True
                while True:
                    ln = lines[i]
                    i += 1
                    if ln == '}':
                        break
                    if not ln.strip():
                        continue
                    if ln[0] != ' ':
                        lab = ln.split(':')[0]
                        cur = f.blocks['%' + lab] = []
                        if first:
                            f.entry = '%' + lab
                            first = False
                        continue
                    if first:
                        # implicit entry label: number = len(params)
                        lab = '%' + str(len(f.params))
                        cur = f.blocks[lab] = []
                        f.entry = lab
                        first = False
                    s = ln.strip()
                    if s.startswith('switch'):
                        while not s.endswith(']'):
                            s += ' ' + lines[i].strip()
                            i += 1
                    cur.append(self._instr(s))
                continue
            raise SyntaxError('top-level: ' + ln)
        return self

    def _strip(self, ln):
        # drop trailing comments and metadata attachments
        if ';' in ln and '"' not in ln:
            ln = ln.split(';')[0]
        ln = re.sub(r'(, ![a-zA-Z.]+ ![0-9]+)+\s*$', '', ln)
        return ln

    def _global(self, ln):
        ln = self._strip(ln)
        m = re.match(r'(@[^ ]+|@"[^"]*") = (.*)$', ln)
        name = m.group(1)
        toks = tokenize(m.group(2))
        p = P(toks, self)
        is_const = False
        external = False
        while True:
            k, v = p.peek()
            if v in ('private', 'internal', 'unnamed_addr', 'local_unnamed_addr', 'dso_local', 'common',
                     'linkonce_odr', 'weak', 'hidden', 'thread_local', 'available_externally'):
                p.next()
            elif v == 'external':
                external = True
                p.next()
            elif v == 'global':
                p.next()
                break
            elif v == 'constant':
                is_const = True
                p.next()
                break
            else:
                raise SyntaxError('global: ' + ln)
        ty = p.ty()
        init = None
        if not external and not p.eof() and p.peek()[1] != ',':
            init = p.operand(ty)
        self.globals[name] = (ty, init, is_const)

    def _decl(self, ln, defined):
        ln = self._strip(ln)
        toks = tokenize(ln.rstrip('{').strip())
        p = P(toks, self)
        p.next()
        while p.peek()[1] in ('internal', 'dso_local', 'private', 'hidden', 'linkonce_odr', 'weak',
                              'available_externally', 'zeroext', 'signext', 'noalias', 'noundef', 'nonnull'):
            p.next()
        ret = self._base_ty(p)
        k, name = p.next()
        p.expect('(')
        params = []
        va = False
        if not p.accept(')'):
            while True:
                if p.accept('...'):
                    va = True
                else:
                    t = p.ty()
                    p.skip_attrs()
                    nm = None
                    if p.peek()[0] == 'id':
                        nm = p.next()[1]
                    params.append((t, nm))
                if p.accept(')'):
                    break
                p.expect(',')
        f = self.funcs.get(name)
        if f is None or defined:
            f = Func(name, ret, params, va)
            self.funcs[name] = f
        f.defined = f.defined or defined
        if defined:
            # unnamed params are %0..%n-1
            f.params = [(t, nm if nm else '%' + str(ix)) for ix, (t, nm) in enumerate(params)]
        return f

    def _base_ty(self, p):
        # like P.ty but a '(' is a function type only if followed later by '*'
        # Strategy: parse with functy disabled, then if next is '(' and the token after the
        # matching ')' is '*', re-parse as function pointer type.
        start = p.i
        old = P._looks_functy
        P._looks_functy = lambda self: False
        try:
            t = p.ty()
        finally:
            P._looks_functy = old
        if p.peek()[1] == '(':
            # find matching paren
            d = 0
            j = p.i
            while True:
                if p.t[j][1] == '(':
                    d += 1
                elif p.t[j][1] == ')':
                    d -= 1
                    if d == 0:
                        break
                j += 1
            if j + 1 < len(p.t) and p.t[j + 1][1] == '*':
                p.i = start
                t = p.ty()
        return t

    def _instr(self, s):
        text = s
        s = self._strip(s)
        toks = tokenize(s)
        p = P(toks, self)
        dst = None
        if toks[0][0] == 'id' and len(toks) > 1 and toks[1][1] == '=':
            dst = toks[0][1]
            p.i = 2
        k, op = p.next()
        I = Instr
        if op in ('add', 'sub', 'mul', 'udiv', 'sdiv', 'urem', 'srem', 'and', 'or', 'xor', 'shl', 'lshr',
                  'ashr', 'fadd', 'fsub', 'fmul', 'fdiv', 'frem'):
            while p.peek()[1] in ('nuw', 'nsw', 'exact', 'fast', 'nnan', 'ninf', 'nsz', 'arcp', 'contract',
                                  'afn', 'reassoc'):
                p.next()
            t = p.ty()
            a = p.operand(t)
            p.expect(',')
            b = p.operand(t)
            return I(op, dst, t, a, b, text=text)
        if op == 'fneg':
            t = p.ty()
            return I(op, dst, t, p.operand(t), text=text)
        if op in ('icmp', 'fcmp'):
            pred = p.next()[1]
            t = p.ty()
            a = p.operand(t)
            p.expect(',')
            b = p.operand(t)
            return I(op, dst, t, a, b, x=pred, text=text)
        if op == 'load':
            p.accept('volatile')
            t = p.ty()
            p.expect(',')
            pt, a = p.typed_operand()
            return I(op, dst, t, a, text=text)
        if op == 'store':
            p.accept('volatile')
            t, v = p.typed_operand()
            p.expect(',')
            pt, a = p.typed_operand()
            return I(op, None, t, v, a, text=text)
        if op == 'alloca':
            t = p.ty()
            cnt = None
            if p.accept(','):
                if p.peek()[1] != 'align':
                    ct, cnt = p.typed_operand()
            return I(op, dst, t, cnt, text=text)
        if op == 'getelementptr':
            p.accept('inbounds')
            sty = p.ty()
            p.expect(',')
            pt, base = p.typed_operand()
            idx = []
            while p.accept(','):
                it, iv = p.typed_operand()
                idx.append((it, iv))
            return I(op, dst, sty, base, idx, text=text)
        if op in ('sext', 'zext', 'trunc', 'bitcast', 'ptrtoint', 'inttoptr', 'sitofp', 'uitofp', 'fptosi',
                  'fptoui', 'fpext', 'fptrunc'):
            t, a = p.typed_operand()
            p.expect('to')
            t2 = p.ty()
            return I(op, dst, t2, a, x=t, text=text)
        if op == 'br':
            if p.peek()[1] == 'label':
                p.next()
                return I('jmp', a=p.next()[1], text=text)
            t, c = p.typed_operand()
            p.expect(',')
            p.expect('label')
            l1 = p.next()[1]
            p.expect(',')
            p.expect('label')
            l2 = p.next()[1]
            return I('br', a=c, b=l1, c=l2, text=text)
        if op == 'switch':
            t, v = p.typed_operand()
            p.expect(',')
            p.expect('label')
            dflt = p.next()[1]
            p.expect('[')
            cases = []
            while not p.accept(']'):
                ct, cv = p.typed_operand()
                p.expect(',')
                p.expect('label')
                cases.append((cv[1], p.next()[1]))
            return I(op, ty=t, a=v, b=dflt, c=cases, text=text)
        if op == 'ret':
            if p.peek()[1] == 'void':
                return I(op, text=text)
            t, v = p.typed_operand()
            return I(op, ty=t, a=v, text=text)
        if op == 'phi':
            t = p.ty()
            inc = {}
            while True:
                p.expect('[')
                v = p.operand(t)
                p.expect(',')
                lab = p.next()[1]
                p.expect(']')
                inc[lab] = v
                if not p.accept(','):
                    break
            return I(op, dst, t, inc, text=text)
        if op == 'select':
            ct, c = p.typed_operand()
            p.expect(',')
            t, a = p.typed_operand()
            p.expect(',')
            t2, b = p.typed_operand()
            return I(op, dst, t, c, a, b, text=text)
        if op in ('call', 'tail', 'musttail', 'notail'):
            if op != 'call':
                p.expect('call')
            while p.peek()[1] in ('fast', 'nnan', 'ninf', 'nsz', 'zeroext', 'signext', 'noalias', 'noundef',
                                  'nonnull', 'fastcc', 'ccc'):
                p.next()
            rt = self._base_ty(p)
            if rt.k == 'ptr' and rt.elem.k == 'func':
                rt = rt.elem.elem  # explicit function pointer type given for varargs
            elif rt.k == 'func':
                rt = rt.elem
            # callee may be preceded by full function type for varargs: handled since _base_ty
            # only takes '(...)' if followed by '*'. For "i32 (i8*, ...) @f(" form:
            if p.peek()[1] == '(':
                # skip function type param list
                d = 0
                while True:
                    v = p.next()[1]
                    if v == '(':
                        d += 1
                    elif v == ')':
                        d -= 1
                        if d == 0:
                            break
            k, callee = p.next()
            callee = ('g', callee) if callee[0] == '@' else ('r', callee)
            p.expect('(')
            args = []
            if not p.accept(')'):
                while True:
                    t, v = p.typed_operand()
                    args.append((t, v))
                    if p.accept(')'):
                        break
                    p.expect(',')
            return I('call', dst, rt, callee, args, text=text)
        if op == 'unreachable':
            return I(op, text=text)
        raise SyntaxError('instr: ' + s)


if __name__ == '__main__':
    import sys
    m = Module().parse(sys.argv[1])
    print(len(m.types), 'types', len(m.globals), 'globals', len(m.funcs), 'funcs',
          sum(1 for f in m.funcs.values() if f.defined), 'defined')
