"""Checks with a C half (llsym jobs) and a Python half (CrossHair contracts): one merged evidence file."""
import json
import os

HERE = os.path.dirname(os.path.dirname(os.path.abspath(__file__)))


def run_mixed(pid, tier, seed, only, jobs, conds, bounds, outside, assumptions, standins):
    from engine import driver
    import chdriver
    out = os.environ.get('VERIF_OUT', HERE)
    chk = driver.Check(pid, tier)
    try:
        js = jobs
        if only:
            js = [j for j in js if only in j['name']]
        if js:
            chk.run_c_jobs(js)
        cov = chk.c_coverage(bounds, outside)
        rc_c = chk.finish('model_checking', cov, assumptions, seed)
    finally:
        chk.cleanup()
    ev_c = json.load(open(os.path.join(out, 'evidence', pid + '.json')))
    cs = conds
    if only:
        cs = [c for c in cs if only in c['function']]
    rc_p = chdriver.run(pid, tier, seed, cs, bounds, outside, assumptions, standins) if cs else 0
    ev_p = json.load(open(os.path.join(out, 'evidence', pid + '.json')))
    ev = ev_c
    if cs:
        ev['coverage']['crosshair'] = ev_p['coverage']
        ev['coverage']['states'] += ev_p['coverage']['states']
        ev['coverage']['traces_validated_against_impl'] += ev_p['coverage']['traces_validated_against_impl']
        ev['violations'] = ev_c.get('violations', 0) + ev_p.get('violations', 0)
        ev['harness_errors'] = ev_c.get('harness_errors', []) + ev_p.get('harness_errors', [])
        ev['known_findings'] = sorted(set(ev_c.get('known_findings', []) + ev_p.get('known_findings', [])))
        ev['wall_s'] = round(ev_c['wall_s'] + ev_p['wall_s'], 2)
    json.dump(ev, open(os.path.join(out, 'evidence', pid + '.json'), 'w'), indent=1)
    return 1 if 1 in (rc_c, rc_p) else 3 if 3 in (rc_c, rc_p) else 0
