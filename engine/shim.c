#include <stddef.h>
#include <stdint.h>
#include <stdbool.h>
size_t strlen(const char *s){ size_t n=0; while(s[n]) n++; return n; }
int memcmp(const void *a, const void *b, size_t n){ const unsigned char *x=a,*y=b; for(size_t i=0;i<n;i++){ if(x[i]!=y[i]) return x[i]<y[i]?-1:1;} return 0; }
int strcmp(const char *a, const char *b){ while(*a && *a==*b){a++;b++;} return (unsigned char)*a-(unsigned char)*b; }
int strncmp(const char *a, const char *b, size_t n){ for(size_t i=0;i<n;i++){ if(a[i]!=b[i]) return (unsigned char)a[i]-(unsigned char)b[i]; if(!a[i]) break;} return 0; }
void *memcpy(void *d, const void *s, size_t n);
/* stable insertion sort standing in for qsort */
void qsort(void *base, size_t n, size_t size, int (*cmp)(const void *, const void *)){
    char *b = base; char tmp[256];
    for (size_t i = 1; i < n; i++) {
        size_t j = i;
        while (j > 0 && cmp(b + (j-1)*size, b + j*size) > 0) {
            memcpy(tmp, b + (j-1)*size, size);
            memcpy(b + (j-1)*size, b + j*size, size);
            memcpy(b + j*size, tmp, size);
            j--;
        }
    }
}
char *strcpy(char *d, const char *s){ size_t i=0; while((d[i]=s[i])) i++; return d; }
char *strcat(char *d, const char *s){ strcpy(d + strlen(d), s); return d; }
void *bsearch(const void *key, const void *base, size_t n, size_t size, int (*cmp)(const void *, const void *)){
    size_t lo = 0, hi = n;
    while (lo < hi) { size_t mid = lo + (hi - lo) / 2; const char *p = (const char *) base + mid * size; int c = cmp(key, p);
        if (c == 0) return (void *) p; if (c < 0) hi = mid; else lo = mid + 1; }
    return NULL;
}
void *memchr(const void *s, int c, size_t n){ const unsigned char *p = s; for (size_t i = 0; i < n; i++) { if (p[i] == (unsigned char) c) return (void *) (p + i); } return NULL; }
