"""Runs CrossHair on ONE contract function and prints a JSON verdict.
Executed with /verif/.venv/bin/python (overlay of /venv + crosshair-tool).

usage: ch_run.py <module> <function> <per_condition_timeout> [--twin]

--twin: analyse the reachability twin instead: same preconditions, postcondition
"the function does not complete with a true result"; it must come back REFUTED.
"""
import collections
import importlib
import inspect
import json
import os
import re
import sys
import time


def make_twin(mod, fn):
    src = inspect.getsource(fn)
    doc = fn.__doc__ or ''
    pres = [l.strip() for l in doc.splitlines() if l.strip().startswith('pre:')]
    sig = inspect.signature(fn)
    params = ', '.join(str(p) for p in sig.parameters.values())
    ret = '' if sig.return_annotation is inspect.Signature.empty else ' -> bool'
    names = ', '.join(sig.parameters)
    code = 'def %s__twin(%s)%s:\n    """\n' % (fn.__name__, params, ret)
    for p in pres:
        code += '    %s\n' % p
    code += '    post: not _\n    """\n    return bool(%s(%s))\n' % (fn.__name__, names)
    ns = mod.__dict__
    # the twin must live in a real file for CrossHair's source lookups
    import os
    import tempfile
    d = tempfile.mkdtemp(prefix='chtwin_')
    import atexit
    import shutil
    atexit.register(shutil.rmtree, d, True)
    path = os.path.join(d, 'twin_%s_%s.py' % (mod.__name__, fn.__name__))
    with open(path, 'w') as f:
        f.write('from %s import *\nfrom %s import %s\nfrom typing import *\n' % (mod.__name__, mod.__name__, fn.__name__))
        f.write(code)
    sys.path.insert(0, d)
    tm = importlib.import_module('twin_%s_%s' % (mod.__name__, fn.__name__))
    return getattr(tm, fn.__name__ + '__twin')


def main():
    modname, fname, tmo = sys.argv[1], sys.argv[2], float(sys.argv[3])
    twin = '--twin' in sys.argv
    t0 = time.time()
    from crosshair.core_and_libs import analyze_function
    from crosshair.options import AnalysisOptionSet
    from crosshair.statespace import MessageType
    if os.environ.get('CH_PRECISE_FLOATS') == '1':
        # CrossHair's real-valued float model is an approximation (it caps every verdict at UNKNOWN); contracts whose
        # code compares symbolic ints with float literals are run with the exact IEEE binary64 model only.
        from crosshair.libimpl import builtinslib
        builtinslib._PYTYPE_TO_WRAPPER_TYPE[float] = ((builtinslib.PreciseIeeeSymbolicFloat, 1.0),)
    mod = importlib.import_module(modname)
    fn = getattr(mod, fname)
    if twin:
        fn = make_twin(mod, fn)
    opts = AnalysisOptionSet(per_condition_timeout=tmo, report_all=True, max_uninteresting_iterations=10**9,
                             per_path_timeout=max(10.0, tmo / 4))
    checkables = analyze_function(fn, opts)
    out = dict(module=modname, function=fname, twin=twin, verdicts=[], paths=0, exhausted=False)
    for c in checkables:
        stats = collections.Counter()
        if hasattr(c, 'options'):
            c.options.stats = stats
        msgs = list(c.analyze())
        out['paths'] += stats.get('num_paths', 0)
        for m in msgs:
            st = m.state
            out['verdicts'].append(dict(state=st.name, message=m.message, line=m.line))
    out['wall_s'] = round(time.time() - t0, 2)
    print('CHRESULT ' + json.dumps(out))


if __name__ == '__main__':
    main()
