"""Driver for the CrossHair-based checks: one process per contract function (and per
reachability twin), in parallel; counterexamples are re-executed concretely on the
real modules before a VIOLATION is printed."""
import json
import os
import re
import subprocess
import sys
import time
from concurrent.futures import ThreadPoolExecutor

HERE = os.path.dirname(os.path.abspath(__file__))
VERIF = os.path.dirname(HERE)
OUTDIR = os.environ.get('VERIF_OUT', VERIF)
REPO = os.environ.get('VERIF_REPO', '/repo')
VENV_PY = os.path.join(VERIF, '.venv', 'bin', 'python')
NPROC = int(os.environ.get('VERIF_NPROC', '16'))

sys.path.insert(0, HERE)
from driver import load_known, match_known  # noqa: E402


def ensure_venv():
    if not os.path.exists(os.path.join(VERIF, '.venv', 'bin', 'crosshair')):
        r = subprocess.run(['sh', os.path.join(VERIF, 'tools', 'setup.sh')], capture_output=True, text=True)
        if r.returncode != 0:
            raise RuntimeError('setup failed: ' + r.stdout[-2000:] + r.stderr[-2000:])


def pyenv(extra=None):
    env = dict(os.environ)
    env['PYTHONPATH'] = os.pathsep.join([os.path.join(VERIF, 'pyprops'), os.path.join(REPO, 'python')])
    env['PYTHONHASHSEED'] = '0'
    env.pop('VERIF_REPLAY', None)
    if extra:
        env.update(extra)
    return env


def run_one(cond, twin=False):
    # budgets are upper bounds (a confirmed condition stops as soon as its path tree is exhausted); the factor leaves slack
    # for slower or busier machines than the one the per-condition numbers were measured on
    factor = float(os.environ.get('VERIF_CH_BUDGET_FACTOR', '3'))
    t = cond['timeout'] * factor if not twin else min(cond['timeout'], 60) * 2
    cmd = [VENV_PY, os.path.join(HERE, 'ch_run.py'), cond['module'], cond['function'], str(t)]
    if twin:
        cmd.append('--twin')
    t0 = time.time()
    try:
        r = subprocess.run(cmd, capture_output=True, text=True, env=pyenv(cond.get('env')), timeout=t * 3 + 120)
        out, err = r.stdout, r.stderr
    except subprocess.TimeoutExpired:
        out, err = '', 'outer timeout'
    m = re.search(r'^CHRESULT (.*)$', out, re.M)
    if not m:
        return dict(error='no result: ' + (err or out)[-1500:], wall_s=time.time() - t0, verdicts=[], paths=0)
    return json.loads(m.group(1))


def stand_in_class(module, clsname):
    """True if clsname is a class defined in the contract module (a stand-in), not in tskit."""
    code = 'import %s as m, inspect; c = getattr(m, %r, None); print("STANDIN", bool(c) and inspect.isclass(c) and c.__module__ == m.__name__)' % (module, clsname)
    r = subprocess.run(['/venv/bin/python', '-c', code], capture_output=True, text=True, env=pyenv({'VERIF_REPLAY': '1'}), timeout=120)
    return 'STANDIN True' in r.stdout


def replay(cond, call_text):
    """Re-execute the contract function concretely (plain interpreter, real libraries)."""
    code = ('import %s as m\n'
            'try:\n'
            '    r = eval(%r, m.__dict__)\n'
            '    print("REPLAY-RESULT", bool(r))\n'
            'except BaseException as e:\n'
            '    print("REPLAY-RAISED", type(e).__name__, str(e)[:300])\n') % (cond['module'], call_text)
    r = subprocess.run(['/venv/bin/python', '-c', code], capture_output=True, text=True,
                       env=pyenv({'VERIF_REPLAY': '1'}), timeout=300)
    return (r.stdout + r.stderr)[-600:]


def run(pid, tier, seed, conds, bounds, outside, assumptions, standins=(), selfchecks=()):
    t0 = time.time()
    ensure_venv()
    kf = load_known(pid)
    errors, violations, known = [], [], []
    for sc in selfchecks:
        # stand-ins are compared with the real callee on concrete boundary cases before anything is believed
        modname, fn = sc.split(':')
        r = subprocess.run(['/venv/bin/python', '-c', 'import %s as m, sys; sys.exit(0 if m.%s() else 1)' % (modname, fn)],
                           capture_output=True, text=True, env=pyenv({'VERIF_REPLAY': '1'}), timeout=300)
        if r.returncode != 0:
            errors.append('stand-in self-check %s failed: %s' % (sc, (r.stdout + r.stderr)[-500:]))
    tasks = []
    with ThreadPoolExecutor(NPROC) as tp:
        for c in conds:
            tasks.append((c, False, tp.submit(run_one, c, False)))
            if c.get('twin', True):
                tasks.append((c, True, tp.submit(run_one, c, True)))
        results = [(c, tw, f.result()) for c, tw, f in tasks]
    rows = []
    total_paths = 0
    replays = 0
    confirmed = 0
    for c, tw, r in results:
        name = c['function'] + ('__twin' if tw else '')
        states = [v['state'] for v in r.get('verdicts', [])]
        row = dict(condition=name, module=c['module'], verdicts=r.get('verdicts', []), paths=r.get('paths', 0),
                   wall_s=r.get('wall_s'), what=c.get('what', ''))
        rows.append(row)
        total_paths += r.get('paths', 0)
        if r.get('error'):
            errors.append('%s: %s' % (name, r['error']))
            continue
        if tw:
            if 'POST_FAIL' not in states:
                errors.append('%s: reachability twin not refuted (vacuous or unreachable): %s' % (name, states))
            continue
        if states == ['CONFIRMED']:
            confirmed += 1
            continue
        bad = [v for v in r['verdicts'] if v['state'] in ('POST_FAIL', 'EXEC_ERR', 'POST_ERR', 'PRE_INVALID')]
        if not bad:
            msg = '%s: inconclusive (%s)' % (name, '; '.join(v['message'] for v in r['verdicts'])[:300])
            if c.get('allow_inconclusive') or (tier == 'thorough' and c.get('allow_inconclusive_thorough')):
                row['inconclusive'] = True
            else:
                errors.append(msg)
            continue
        for v in bad:
            msg_ = re.sub(r' \(which (returns|raises) .*\)\s*$', '', v['message'], flags=re.S)
            m = re.search(r'when calling (\w+\(.*\))\s*$', msg_, re.S)
            if not m:
                errors.append('%s: cannot parse counterexample: %s' % (name, v['message'][:300]))
                continue
            call = m.group(1)
            rp = replay(c, call)
            replays += 1
            desc = dict(job=name, harness=c['module'], kind='contract', msg=v['message'][:500], call=call, replay=rp)
            if 'REPLAY-RESULT True' in rp:
                errors.append('%s: counterexample %s did not reproduce concretely: %s' % (name, call, rp))
                continue
            ms = re.search(r"REPLAY-RAISED AttributeError '(\w+)' object has no attribute", rp)
            if ms and stand_in_class(c['module'], ms.group(1)):
                # the code under analysis asked the stand-in for something it does not model: that says nothing about
                # the property (a correct refactoring could do the same), so it is inconclusive, never a violation
                errors.append('%s: the stand-in %s lacks an attribute the analysed code now uses (inconclusive): %s' % (name, ms.group(1), rp.strip()[:200]))
                continue
            k = match_known(kf, desc)
            if k is not None:
                known.append((k, desc))
            else:
                violations.append(desc)
    seen = set()
    for k, desc in known:
        if k['id'] not in seen:
            seen.add(k['id'])
            print('KNOWN-FINDING: property=%s %s' % (pid, k['what']))
    rdir = os.path.join(OUTDIR, 'replays', pid)
    for i, v in enumerate(violations[:20]):
        os.makedirs(rdir, exist_ok=True)
        p = os.path.join(rdir, '%s_%d.json' % (tier, i))
        with open(p, 'w') as fh:
            json.dump(v, fh, indent=1)
        print('VIOLATION property=%s replay=%s' % (pid, p))
        print('  ', v['job'], v['call'], '->', v['replay'].strip()[:300])
    for e in errors[:30]:
        print('HARNESS-ERROR:', e[:1200])
    cov = dict(states=max(total_paths, 1), transitions=max(total_paths, 1), traces_validated_against_impl=replays,
               samples=[dict(condition=r['condition'], verdicts=[v['state'] for v in r['verdicts']], paths=r['paths'],
                             what=r['what']) for r in rows][:60],
               conditions=len([r for r in rows if not r['condition'].endswith('__twin')]), confirmed=confirmed,
               obligations=len([r for r in rows if not r['condition'].endswith('__twin')]), discharged=confirmed,
               solver_seconds=round(sum((r.get('wall_s') or 0) for r in rows), 1),
               functions_encoded=sorted({f for c in conds for f in c.get('encodes', [])}),
               bounds=bounds, outside_claim=outside, stubs=list(standins),
               exhaustive=not errors and confirmed == len([r for r in rows if not r['condition'].endswith('__twin')]),
               encoding='CrossHair 0.0.110 symbolic execution (z3) of the real modules under %s/python, per-path; '
                        '"Confirmed over all paths" = every path within the preconditions explored' % REPO)
    ev = dict(property_id=pid, tier=tier, seed=seed, level='model_checking', coverage=cov, assumptions=assumptions,
              wall_s=round(time.time() - t0, 2), violations=len(violations), known_findings=sorted(seen),
              harness_errors=errors[:30])
    os.makedirs(os.path.join(OUTDIR, 'evidence'), exist_ok=True)
    with open(os.path.join(OUTDIR, 'evidence', pid + '.json'), 'w') as fh:
        json.dump(ev, fh, indent=1)
    rc = 1 if violations else 3 if errors else 0
    print('%s %s: exit %d, %d conditions, %d confirmed, %d paths, %d violations, %d known, %d harness errors' % (
        pid, tier, rc, cov['conditions'], confirmed, total_paths, len(violations), len(known), len(errors)))
    return rc
